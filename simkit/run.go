package simkit

import (
	"context"
	"crypto/sha256"
	"encoding/hex"
	"fmt"
	"sort"
	"strings"
	"sync"
	"sync/atomic"
	"testing/synctest"
	"time"
)

// Violation identifies a failed oracle clause. Key() = class|locus is what minimisation preserves and what
// known_findings.json matches on.
type Violation struct {
	Property string `json:"property"`
	Class    string `json:"class"`
	Locus    string `json:"locus"`
	Msg      string `json:"msg"`
}

func (v *Violation) Key() string { return v.Class + "|" + v.Locus }

// Run is the state of one simulated execution.
type Run struct {
	Prop string
	Tape *Tape

	log      []string
	Counters map[string]int64    // faults that actually fired, probes that were hit
	States   map[string]struct{} // abstract states visited
	Trans    map[string]struct{} // (state, event kind) transitions
	Viols    []*Violation        // all violations found in this run (first is reported)
	Events   int
	// Nontrivial is set by the harness when the run fired >=1 fault or had >=1 concurrent overlap.
	Nontrivial bool
	// Sample is a harness-defined description of the generated case (config, script...).
	Sample any
	// Virtual is the virtual time covered (harness sets it at the end of the run).
	Virtual time.Duration
	// Extra distinct-case keys (for harnesses that enumerate sub-cases in one run).
	Cases     int
	lastState string
	// OverrideTape, when set together with a violation, is the tape written to the replay file instead of the
	// tape consumed (used by enumerating harnesses to point the replay at the one failing sub-case).
	OverrideTape []int
	caseHashes   map[uint64]bool // sub-case hash -> non-trivial

	mu sync.Mutex
}

func newRun(prop string, tape *Tape) *Run {
	return &Run{Prop: prop, Tape: tape, Counters: map[string]int64{}, States: map[string]struct{}{}, Trans: map[string]struct{}{}}
}

// NewRunForTest is for harness-internal sub-runs (e.g. crash enumeration) that need a scratch Run.
func NewRunForTest(prop string, tape *Tape) *Run { return newRun(prop, tape) }

var beat atomic.Int64

// Beat tells the real-time watchdog that the simulation is making progress.
func Beat() { beat.Add(1) }

func (r *Run) Logf(format string, args ...any) {
	r.mu.Lock()
	r.log = append(r.log, fmt.Sprintf(format, args...))
	r.mu.Unlock()
}

func (r *Run) Log() []string { return r.log }

func (r *Run) LogHash() string {
	h := sha256.New()
	for _, l := range r.log {
		h.Write([]byte(l))
		h.Write([]byte{'\n'})
	}
	return hex.EncodeToString(h.Sum(nil))[:16]
}

func (r *Run) Count(name string) {
	r.mu.Lock()
	r.Counters[name]++
	r.mu.Unlock()
}

func (r *Run) CountN(name string, n int64) {
	r.mu.Lock()
	r.Counters[name] += n
	r.mu.Unlock()
}

// Failf records a violation (class, locus). The first one of a run is the reported one.
func (r *Run) Failf(class, locus, format string, args ...any) {
	v := &Violation{Property: r.Prop, Class: class, Locus: locus, Msg: fmt.Sprintf(format, args...)}
	r.mu.Lock()
	for _, old := range r.Viols {
		if old.Key() == v.Key() && len(r.Viols) > 8 {
			r.mu.Unlock()
			return // the same clause keeps failing in this run: one report is enough
		}
	}
	r.Viols = append(r.Viols, v)
	r.mu.Unlock()
	r.Logf("!! VIOLATION %s: %s", v.Key(), v.Msg)
}

// Failed reports whether the run has a violation that is not a recorded known finding (a run that only hit known
// findings keeps exploring).
func (r *Run) Failed() bool {
	for _, v := range r.Viols {
		if _, ok := globalKnown.Match(v.Key()); !ok {
			return true
		}
	}
	return false
}

var globalKnown *Known

// State records an abstract state signature and the transition from the previous one via event kind ev.
func (r *Run) State(sig, ev string) {
	r.States[sig] = struct{}{}
	if r.lastState != "" {
		r.Trans[r.lastState+" --"+ev+"--> "+sig] = struct{}{}
	}
	r.lastState = sig
}

// AddCase registers one enumerated sub-case of this run (distinctness is by the given key).
func (r *Run) AddCase(key string, nontrivial bool) {
	if r.caseHashes == nil {
		r.caseHashes = map[uint64]bool{}
	}
	h := hash64(key)
	r.caseHashes[h] = r.caseHashes[h] || nontrivial
	r.Cases++
}

// Choice is one enabled event.
type Choice struct {
	Name string
	Fire func()
	// W is the weight (default 1).
	W int
}

// Pick sorts the enabled events by name, draws one from the tape, logs it, fires it and waits for quiescence.
// It returns the name of the fired event ("" if none was enabled).
func (r *Run) Pick(choices []Choice) string {
	if len(choices) == 0 {
		return ""
	}
	sort.SliceStable(choices, func(i, j int) bool { return choices[i].Name < choices[j].Name })
	ws := make([]int, len(choices))
	for i, c := range choices {
		ws[i] = c.W
		if ws[i] <= 0 {
			ws[i] = 1
		}
	}
	c := choices[r.Tape.Weighted(ws...)]
	r.Fire(c.Name, c.Fire)
	return c.Name
}

// Fire logs and runs one event, then waits until every goroutine of the bubble is durably blocked.
func (r *Run) Fire(name string, f func()) {
	Beat()
	r.Events++
	r.Logf("ev %s", name)
	f()
	synctest.Wait()
	Beat()
}

// Settle waits for quiescence (no event).
func (r *Run) Settle() {
	Beat()
	synctest.Wait()
	Beat()
}

// Advance moves virtual time forward by d and lets everything that became runnable run to quiescence.
func (r *Run) Advance(d time.Duration) {
	if d > 0 {
		time.Sleep(d)
	}
	synctest.Wait()
	Beat()
}

// ---------------------------------------------------------------------------------------------------------

// Gate is a seam at which real code parks until the scheduler releases it. A parked call is an enabled
// event named by a stable id chosen by the harness (never by goroutine identity).
type Gate struct {
	mu     sync.Mutex
	parked map[string]chan any
}

func NewGate() *Gate { return &Gate{parked: map[string]chan any{}} }

// Park blocks the calling goroutine (durably: unbuffered channel receive) until Release(id, v); returns v.
// If id is already parked a numeric suffix is appended (ids should be unique).
func (g *Gate) Park(id string) any {
	ch := make(chan any)
	g.mu.Lock()
	if _, dup := g.parked[id]; dup {
		for i := 2; ; i++ {
			alt := fmt.Sprintf("%s#%d", id, i)
			if _, d := g.parked[alt]; !d {
				id = alt
				break
			}
		}
	}
	g.parked[id] = ch
	g.mu.Unlock()
	return <-ch
}

// ParkCtx is Park that also returns when done is closed (second result false).
func (g *Gate) ParkCtx(id string, done <-chan struct{}) (any, bool) {
	ch := make(chan any)
	g.mu.Lock()
	if _, dup := g.parked[id]; dup {
		for i := 2; ; i++ {
			alt := fmt.Sprintf("%s#%d", id, i)
			if _, d := g.parked[alt]; !d {
				id = alt
				break
			}
		}
	}
	g.parked[id] = ch
	g.mu.Unlock()
	select {
	case v := <-ch:
		return v, true
	case <-done:
		g.mu.Lock()
		if g.parked[id] == ch {
			delete(g.parked, id)
		}
		g.mu.Unlock()
		return nil, false
	}
}

// Parked returns the sorted ids currently parked. Call only at quiescence.
func (g *Gate) Parked() []string {
	g.mu.Lock()
	defer g.mu.Unlock()
	out := make([]string, 0, len(g.parked))
	for k := range g.parked {
		out = append(out, k)
	}
	sort.Strings(out)
	return out
}

func (g *Gate) IsParked(id string) bool {
	g.mu.Lock()
	defer g.mu.Unlock()
	_, ok := g.parked[id]
	return ok
}

// Release lets the call parked under id continue with value v. Reports whether id was parked.
func (g *Gate) Release(id string, v any) bool {
	g.mu.Lock()
	ch, ok := g.parked[id]
	if ok {
		delete(g.parked, id)
	}
	g.mu.Unlock()
	if !ok {
		return false
	}
	// The receiver may have left through ParkCtx's done branch at the same instant; never block the scheduler.
	select {
	case ch <- v:
		return true
	default:
		// receiver is not (yet/any more) at the receive; hand over from a helper goroutine.
		go func() { ch <- v }()
		return true
	}
}

// ReleaseAll releases everything parked (sorted order) with v.
func (g *Gate) ReleaseAll(v any) int {
	ids := g.Parked()
	for _, id := range ids {
		g.Release(id, v)
	}
	return len(ids)
}

// ---------------------------------------------------------------------------------------------------------

// Task is a simulated caller running on its own goroutine inside the bubble.
type Task struct {
	Name string
	done atomic.Bool
	Err  error
	Val  any
}

func (t *Task) Done() bool { return t.done.Load() }

// Go starts f as a task. The scheduler observes completion via Done() at quiescence.
func Go(name string, f func(t *Task)) *Task {
	t := &Task{Name: name}
	go func() {
		defer t.done.Store(true)
		f(t)
	}()
	return t
}

// ShortErr renders an error compactly for logs (stable across runs).
func ShortErr(err error) string {
	if err == nil {
		return "nil"
	}
	s := err.Error()
	s = strings.ReplaceAll(s, "\n", "; ")
	if len(s) > 120 {
		s = s[:120] + "…"
	}
	return s
}

// StartContext returns the context to hand to a component's Start and a function to call right after Start has returned.
// The component contract says that context "will be cancelled soon": half of the time (tape) the function cancels it at
// once, the harshest legal behaviour of a host; otherwise at the end of the run via the returned cancel being dropped.
func StartContext(tp *Tape) (context.Context, func()) {
	ctx, cancel := context.WithCancel(context.Background())
	if tp.Chance(1, 2) {
		return ctx, cancel
	}
	return ctx, func() {}
}
