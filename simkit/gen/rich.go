package gen

import (
	"math"

	"go.opentelemetry.io/collector/pdata/pcommon"
	"go.opentelemetry.io/collector/pdata/plog"
	"go.opentelemetry.io/collector/pdata/pmetric"
	"go.opentelemetry.io/collector/pdata/pprofile"
	"go.opentelemetry.io/collector/pdata/ptrace"
	"verif.local/simkit"
)

// Enrich decorates a generated payload IN PLACE with the parts of the data model the small-alphabet generators leave
// at their zero values: attribute values of every kind (negative and > 2^53 integers, doubles incl. tiny / huge,
// booleans, bytes, nested maps and slices, empty values), ids, flags, timestamps, events, links, status, exemplars,
// histogram / exponential histogram / summary details. Harnesses that compare whole payloads (wire round trip, deep
// copy, byte sizes) call it; the per-item id attribute and the fields of the fingerprints are left alone.
// extreme: also non-finite doubles.
func Enrich(tp *simkit.Tape, payload any, extreme bool) {
	e := enricher{tp: tp, extreme: extreme}
	switch p := payload.(type) {
	case plog.Logs:
		for i := 0; i < p.ResourceLogs().Len(); i++ {
			rl := p.ResourceLogs().At(i)
			e.attrs(rl.Resource().Attributes(), 3)
			for j := 0; j < rl.ScopeLogs().Len(); j++ {
				sl := rl.ScopeLogs().At(j)
				e.attrs(sl.Scope().Attributes(), 4)
				for k := 0; k < sl.LogRecords().Len(); k++ {
					e.logRecord(sl.LogRecords().At(k))
				}
			}
		}
	case ptrace.Traces:
		for i := 0; i < p.ResourceSpans().Len(); i++ {
			rs := p.ResourceSpans().At(i)
			e.attrs(rs.Resource().Attributes(), 3)
			for j := 0; j < rs.ScopeSpans().Len(); j++ {
				ss := rs.ScopeSpans().At(j)
				e.attrs(ss.Scope().Attributes(), 4)
				for k := 0; k < ss.Spans().Len(); k++ {
					e.span(ss.Spans().At(k))
				}
			}
		}
	case pprofile.Profiles:
		for i := 0; i < p.ResourceProfiles().Len(); i++ {
			rp := p.ResourceProfiles().At(i)
			e.attrs(rp.Resource().Attributes(), 3)
			for j := 0; j < rp.ScopeProfiles().Len(); j++ {
				sp := rp.ScopeProfiles().At(j)
				e.attrs(sp.Scope().Attributes(), 4)
				for k := 0; k < sp.Profiles().Len(); k++ {
					e.profile(sp.Profiles().At(k))
				}
			}
		}
	case pmetric.Metrics:
		for i := 0; i < p.ResourceMetrics().Len(); i++ {
			rm := p.ResourceMetrics().At(i)
			e.attrs(rm.Resource().Attributes(), 3)
			for j := 0; j < rm.ScopeMetrics().Len(); j++ {
				sm := rm.ScopeMetrics().At(j)
				e.attrs(sm.Scope().Attributes(), 4)
				for k := 0; k < sm.Metrics().Len(); k++ {
					e.metric(sm.Metrics().At(k))
				}
			}
		}
	}
}

type enricher struct {
	tp      *simkit.Tape
	extreme bool
	n       byte
}

func (e *enricher) ts() pcommon.Timestamp {
	return pcommon.Timestamp([]uint64{0, 1, 1700000000000000000, math.MaxInt64, math.MaxUint64}[e.tp.Weighted(2, 1, 4, 1, 1)])
}

func (e *enricher) traceID() pcommon.TraceID {
	e.n++
	switch e.tp.Draw(3) {
	case 0:
		return pcommon.TraceID{}
	case 1:
		return pcommon.TraceID{0, 0, 0, 0, 0, 0, 0, 0, 0, 0, 0, 0, 0, 0, 0, e.n}
	}
	return pcommon.TraceID{0xff, e.n, 3, 4, 5, 6, 7, 8, 9, 10, 11, 12, 13, 14, 15, 0x80}
}

func (e *enricher) spanID() pcommon.SpanID {
	e.n++
	switch e.tp.Draw(3) {
	case 0:
		return pcommon.SpanID{}
	case 1:
		return pcommon.SpanID{0, 0, 0, 0, 0, 0, 0, e.n}
	}
	return pcommon.SpanID{0xfe, e.n, 3, 4, 5, 6, 7, 0x81}
}

func (e *enricher) double() float64 {
	vals := []float64{0, 0.1, -2.5, 1e-300, 1.7976931348623157e308, 5e-324, 3}
	if e.extreme && e.tp.Chance(1, 4) {
		return []float64{math.Inf(1), math.Inf(-1), math.NaN(), math.Copysign(0, -1)}[e.tp.Draw(4)]
	}
	return vals[e.tp.Draw(len(vals))]
}

func (e *enricher) int() int64 {
	return []int64{0, -1, 7, 1 << 53, (1 << 53) + 1, math.MaxInt64, math.MinInt64}[e.tp.Draw(7)]
}

func (e *enricher) str() string {
	return []string{"", "x", "a b", "ünï-ç∅dé", "quote\"back\\slash", "line\nbreak\ttab", "<&>"}[e.tp.Draw(7)]
}

func (e *enricher) value(v pcommon.Value, depth int) {
	k := e.tp.Draw(8)
	if depth <= 0 && k >= 6 {
		k = e.tp.Draw(6)
	}
	switch k {
	case 0:
		v.SetStr(e.str())
	case 1:
		v.SetInt(e.int())
	case 2:
		v.SetDouble(e.double())
	case 3:
		v.SetBool(e.tp.Chance(1, 2))
	case 4:
		// (never empty: a Bytes value without content and an absent value have the same protobuf wire form, and the
		// harnesses compare wire forms)
		b := v.SetEmptyBytes()
		if e.tp.Chance(1, 2) {
			b.FromRaw([]byte{0})
		} else {
			b.FromRaw([]byte{0xff, 0x00, 0x7f, 0x80, '"'})
		}
	case 5:
		// stays empty (ValueTypeEmpty)
	case 6:
		m := v.SetEmptyMap()
		n := e.tp.Draw(3)
		for i := 0; i < n; i++ {
			e.value(m.PutEmpty([]string{"k", "k.2", ""}[i]), depth-1)
		}
	case 7:
		s := v.SetEmptySlice()
		n := e.tp.Draw(3)
		for i := 0; i < n; i++ {
			e.value(s.AppendEmpty(), depth-1)
		}
	}
}

// attrs adds, with probability 1/every, up to three attributes of arbitrary kinds.
func (e *enricher) attrs(m pcommon.Map, every int) {
	if !e.tp.Chance(1, every) {
		return
	}
	n := e.tp.Range(1, 3)
	for i := 0; i < n; i++ {
		e.value(m.PutEmpty([]string{"x.rich", "x.rich2", "X.Rich"}[i]), 2)
	}
}

func (e *enricher) logRecord(lr plog.LogRecord) {
	if !e.tp.Chance(1, 2) {
		return
	}
	e.attrs(lr.Attributes(), 1)
	lr.SetTimestamp(e.ts())
	lr.SetObservedTimestamp(e.ts())
	lr.SetTraceID(e.traceID())
	lr.SetSpanID(e.spanID())
	lr.SetFlags(plog.LogRecordFlags([]uint32{0, 1, 0x100, math.MaxUint32}[e.tp.Draw(4)]))
	lr.SetSeverityText(e.str())
	lr.SetEventName(e.str())
	lr.SetDroppedAttributesCount(uint32(e.tp.Draw(3)))
	if lr.Body().Type() == pcommon.ValueTypeEmpty && e.tp.Chance(1, 2) {
		e.value(lr.Body(), 2)
	}
}

func (e *enricher) span(sp ptrace.Span) {
	if !e.tp.Chance(1, 2) {
		return
	}
	e.attrs(sp.Attributes(), 1)
	sp.SetTraceID(e.traceID())
	sp.SetSpanID(e.spanID())
	sp.SetParentSpanID(e.spanID())
	sp.TraceState().FromRaw([]string{"", "k=v", "a=1,b=2"}[e.tp.Draw(3)])
	sp.SetFlags([]uint32{0, 1, 0x300, math.MaxUint32}[e.tp.Draw(4)])
	sp.SetStartTimestamp(e.ts())
	sp.SetEndTimestamp(e.ts())
	sp.SetDroppedAttributesCount(uint32(e.tp.Draw(3)))
	sp.SetDroppedEventsCount(uint32(e.tp.Draw(3)))
	sp.SetDroppedLinksCount(uint32(e.tp.Draw(3)))
	sp.Status().SetCode(ptrace.StatusCode(e.tp.Draw(3)))
	sp.Status().SetMessage(e.str())
	for i, n := 0, e.tp.Draw(3); i < n; i++ {
		ev := sp.Events().AppendEmpty()
		ev.SetName(e.str())
		ev.SetTimestamp(e.ts())
		ev.SetDroppedAttributesCount(uint32(e.tp.Draw(3)))
		e.attrs(ev.Attributes(), 2)
	}
	for i, n := 0, e.tp.Draw(3); i < n; i++ {
		ln := sp.Links().AppendEmpty()
		ln.SetTraceID(e.traceID())
		ln.SetSpanID(e.spanID())
		ln.TraceState().FromRaw([]string{"", "k=v"}[e.tp.Draw(2)])
		ln.SetFlags([]uint32{0, 1, 0x200}[e.tp.Draw(3)])
		ln.SetDroppedAttributesCount(uint32(e.tp.Draw(3)))
		e.attrs(ln.Attributes(), 2)
	}
}

func (e *enricher) exemplars(es pmetric.ExemplarSlice) {
	for i, n := 0, e.tp.Draw(3); i < n; i++ {
		ex := es.AppendEmpty()
		ex.SetTimestamp(e.ts())
		if e.tp.Chance(1, 2) {
			ex.SetIntValue(e.int())
		} else {
			ex.SetDoubleValue(e.double())
		}
		ex.SetTraceID(e.traceID())
		ex.SetSpanID(e.spanID())
		e.attrs(ex.FilteredAttributes(), 2)
	}
}

func (e *enricher) flags() pmetric.DataPointFlags {
	return pmetric.DefaultDataPointFlags.WithNoRecordedValue(e.tp.Chance(1, 3))
}

func (e *enricher) metric(m pmetric.Metric) {
	if !e.tp.Chance(1, 2) {
		return
	}
	num := func(dps pmetric.NumberDataPointSlice) {
		for q := 0; q < dps.Len(); q++ {
			dp := dps.At(q)
			e.attrs(dp.Attributes(), 2)
			dp.SetStartTimestamp(e.ts())
			dp.SetTimestamp(e.ts())
			dp.SetFlags(e.flags())
			switch e.tp.Draw(3) {
			case 1:
				dp.SetIntValue(e.int())
			case 2:
				dp.SetDoubleValue(e.double())
			}
			e.exemplars(dp.Exemplars())
		}
	}
	switch m.Type() {
	case pmetric.MetricTypeGauge:
		num(m.Gauge().DataPoints())
	case pmetric.MetricTypeSum:
		num(m.Sum().DataPoints())
	case pmetric.MetricTypeHistogram:
		for q := 0; q < m.Histogram().DataPoints().Len(); q++ {
			dp := m.Histogram().DataPoints().At(q)
			e.attrs(dp.Attributes(), 2)
			dp.SetStartTimestamp(e.ts())
			dp.SetTimestamp(e.ts())
			dp.SetFlags(e.flags())
			dp.SetCount(uint64(e.tp.Draw(5)))
			if e.tp.Chance(1, 2) {
				dp.SetSum(e.double())
			}
			if e.tp.Chance(1, 2) {
				dp.SetMin(e.double())
				dp.SetMax(e.double())
			}
			if e.tp.Chance(1, 2) {
				dp.ExplicitBounds().FromRaw([]float64{0.5, 10})
				dp.BucketCounts().FromRaw([]uint64{1, 0, math.MaxUint64})
			}
			e.exemplars(dp.Exemplars())
		}
	case pmetric.MetricTypeExponentialHistogram:
		for q := 0; q < m.ExponentialHistogram().DataPoints().Len(); q++ {
			dp := m.ExponentialHistogram().DataPoints().At(q)
			e.attrs(dp.Attributes(), 2)
			dp.SetStartTimestamp(e.ts())
			dp.SetTimestamp(e.ts())
			dp.SetFlags(e.flags())
			dp.SetCount(uint64(e.tp.Draw(5)))
			dp.SetScale(int32(e.tp.Draw(5)) - 2)
			dp.SetZeroCount(uint64(e.tp.Draw(3)))
			dp.SetZeroThreshold(e.double())
			if e.tp.Chance(1, 2) {
				dp.SetSum(e.double())
				dp.SetMin(e.double())
				dp.SetMax(e.double())
			}
			if e.tp.Chance(1, 2) {
				dp.Positive().SetOffset(int32(e.tp.Draw(5)) - 2)
				dp.Positive().BucketCounts().FromRaw([]uint64{0, 3})
				dp.Negative().SetOffset(-1)
				dp.Negative().BucketCounts().FromRaw([]uint64{1})
			}
			e.exemplars(dp.Exemplars())
		}
	case pmetric.MetricTypeSummary:
		for q := 0; q < m.Summary().DataPoints().Len(); q++ {
			dp := m.Summary().DataPoints().At(q)
			e.attrs(dp.Attributes(), 2)
			dp.SetStartTimestamp(e.ts())
			dp.SetTimestamp(e.ts())
			dp.SetFlags(e.flags())
			dp.SetCount(uint64(e.tp.Draw(5)))
			dp.SetSum(e.double())
			for i, n := 0, e.tp.Draw(3); i < n; i++ {
				qv := dp.QuantileValues().AppendEmpty()
				qv.SetQuantile([]float64{0, 0.5, 0.99, 1}[e.tp.Draw(4)])
				qv.SetValue(e.double())
			}
		}
	}
}

// profile fills the dictionary tables and the remaining scalar fields of a profile; the samples' first value (the
// generator's item id) stays.
func (e *enricher) profile(pr pprofile.Profile) {
	if !e.tp.Chance(1, 2) {
		return
	}
	i32 := func() int32 { return int32(e.tp.Draw(4)) }
	pr.StringTable().Append("", "cpu", "nanoseconds", "main")
	for i, n := 0, e.tp.Draw(3); i < n; i++ {
		vt := pr.SampleType().AppendEmpty()
		vt.SetTypeStrindex(i32())
		vt.SetUnitStrindex(i32())
		vt.SetAggregationTemporality(pprofile.AggregationTemporality(e.tp.Draw(3)))
	}
	for i, n := 0, e.tp.Draw(3); i < n; i++ {
		m := pr.MappingTable().AppendEmpty()
		m.SetMemoryStart(uint64(e.tp.Draw(3)) << 40)
		m.SetMemoryLimit(math.MaxUint64)
		m.SetFileOffset(uint64(e.tp.Draw(5)))
		m.SetFilenameStrindex(i32())
		m.AttributeIndices().Append(i32())
		m.SetHasFunctions(e.tp.Chance(1, 2))
		m.SetHasFilenames(e.tp.Chance(1, 2))
		m.SetHasLineNumbers(e.tp.Chance(1, 2))
		m.SetHasInlineFrames(e.tp.Chance(1, 2))
	}
	for i, n := 0, e.tp.Draw(3); i < n; i++ {
		l := pr.LocationTable().AppendEmpty()
		if e.tp.Chance(1, 2) {
			l.SetMappingIndex(i32())
		}
		l.SetAddress(uint64(e.tp.Draw(3)) << 33)
		l.SetIsFolded(e.tp.Chance(1, 2))
		l.AttributeIndices().Append(i32(), i32())
		for q, nl := 0, e.tp.Draw(3); q < nl; q++ {
			ln := l.Line().AppendEmpty()
			ln.SetFunctionIndex(i32())
			ln.SetLine(e.int())
			ln.SetColumn(int64(e.tp.Draw(100)))
		}
	}
	pr.LocationIndices().Append(i32(), i32())
	for i, n := 0, e.tp.Draw(3); i < n; i++ {
		f := pr.FunctionTable().AppendEmpty()
		f.SetNameStrindex(i32())
		f.SetSystemNameStrindex(i32())
		f.SetFilenameStrindex(i32())
		f.SetStartLine(e.int())
	}
	for i, n := 0, e.tp.Draw(3); i < n; i++ {
		a := pr.AttributeTable().AppendEmpty()
		a.SetKey(e.str())
		e.value(a.Value(), 2)
	}
	for i, n := 0, e.tp.Draw(3); i < n; i++ {
		u := pr.AttributeUnits().AppendEmpty()
		u.SetAttributeKeyStrindex(i32())
		u.SetUnitStrindex(i32())
	}
	for i, n := 0, e.tp.Draw(3); i < n; i++ {
		l := pr.LinkTable().AppendEmpty()
		l.SetTraceID(e.traceID())
		l.SetSpanID(e.spanID())
	}
	pr.SetTime(e.ts())
	pr.SetDuration(e.ts())
	pr.SetStartTime(e.ts())
	pr.PeriodType().SetTypeStrindex(i32())
	pr.PeriodType().SetUnitStrindex(i32())
	pr.PeriodType().SetAggregationTemporality(pprofile.AggregationTemporality(e.tp.Draw(3)))
	pr.CommentStrindices().Append(i32())
	pr.SetDefaultSampleTypeStrindex(i32())
	pr.AttributeIndices().Append(i32())
	pr.SetDroppedAttributesCount(uint32(e.tp.Draw(3)))
	pr.SetOriginalPayloadFormat(e.str())
	if e.tp.Chance(1, 2) {
		pr.OriginalPayload().FromRaw([]byte{0x1f, 0x8b, 0, 0xff})
	}
	for q := 0; q < pr.Sample().Len(); q++ {
		s := pr.Sample().At(q)
		s.SetLocationsStartIndex(i32())
		s.SetLocationsLength(i32())
		s.AttributeIndices().Append(i32())
		if e.tp.Chance(1, 2) {
			s.SetLinkIndex(i32())
		}
		s.TimestampsUnixNano().Append(uint64(e.ts()))
	}
}
