// Package gen generates telemetry payloads whose every item (log record, span, metric data point) carries a
// unique id and extracts, from any payload, the multiset of (id, context fingerprint) pairs. The fingerprint is
// everything the properties call an item's "context": resource (attributes, dropped count, schema URL), scope
// (name, version, attributes, schema URL) and for metrics the metric's name, unit, description, type,
// temporality, monotonicity and metadata.
package gen

import (
	"fmt"
	"sort"
	"strings"

	"go.opentelemetry.io/collector/pdata/pcommon"
	"go.opentelemetry.io/collector/pdata/plog"
	"go.opentelemetry.io/collector/pdata/pmetric"
	"go.opentelemetry.io/collector/pdata/pprofile"
	"go.opentelemetry.io/collector/pdata/ptrace"
	"verif.local/simkit"
)

const IDKey = "vid"

type IDs struct {
	Prefix string
	n      int
}

func (s *IDs) Next() string {
	s.n++
	return fmt.Sprintf("%s%d", s.Prefix, s.n)
}

func (s *IDs) Count() int { return s.n }

// Shape bounds the generated nesting.
type Shape struct {
	MaxResources int
	MaxScopes    int
	MaxMetrics   int
	MaxItems     int
	// Oversize: if >0, one item gets a body/attribute of this many bytes
	Oversize int
	// NonEmpty makes every container hold at least one element (so the payload has at least one item)
	NonEmpty bool
	// Fixed makes every container hold exactly its maximum (no draw)
	Fixed bool
}

func (sh Shape) count(tp *simkit.Tape, max int) int {
	if sh.Fixed {
		return max
	}
	if sh.NonEmpty {
		if max < 1 {
			max = 1
		}
		return 1 + tp.Draw(max)
	}
	return tp.Draw(max + 1)
}

var DefaultShape = Shape{MaxResources: 3, MaxScopes: 3, MaxMetrics: 3, MaxItems: 4}

func attrString(m pcommon.Map) string {
	var parts []string
	m.Range(func(k string, v pcommon.Value) bool {
		if k == IDKey {
			return true
		}
		parts = append(parts, k+"="+v.AsString())
		return true
	})
	sort.Strings(parts)
	return strings.Join(parts, ",")
}

func resFP(r pcommon.Resource, schema string) string {
	return fmt.Sprintf("res.attrs=%s|res.dropped=%d|res.schema=%s|", attrString(r.Attributes()), r.DroppedAttributesCount(), schema)
}

func scopeFP(s pcommon.InstrumentationScope, schema string) string {
	return fmt.Sprintf("scope.name=%s|scope.version=%s|scope.attrs=%s|scope.dropped=%d|scope.schema=%s|", s.Name(), s.Version(), attrString(s.Attributes()), s.DroppedAttributesCount(), schema)
}

func fillResource(tp *simkit.Tape, r pcommon.Resource) {
	// a small alphabet, so that duplicate resources occur
	switch tp.Draw(4) {
	case 0:
	case 1:
		r.Attributes().PutStr("service.name", "a")
	case 2:
		r.Attributes().PutStr("service.name", "b")
		r.Attributes().PutInt("shard", int64(tp.Draw(2)))
	case 3:
		r.Attributes().PutStr("host", "h1")
		r.SetDroppedAttributesCount(uint32(tp.Draw(3)))
	}
}

func schemaURL(tp *simkit.Tape, what string) string {
	switch tp.Draw(3) {
	case 1:
		return "https://example.test/" + what + "/1.0"
	case 2:
		return "https://example.test/" + what + "/2.0"
	}
	return ""
}

func fillScope(tp *simkit.Tape, s pcommon.InstrumentationScope) {
	switch tp.Draw(4) {
	case 0:
	case 1:
		s.SetName("lib")
	case 2:
		s.SetName("lib")
		s.SetVersion("v2")
	case 3:
		s.SetName("other")
		s.Attributes().PutBool("beta", true)
	}
}

// ---- logs ---------------------------------------------------------------------------------------------------

func Logs(tp *simkit.Tape, ids *IDs, sh Shape) plog.Logs {
	ld := plog.NewLogs()
	nr := sh.count(tp, sh.MaxResources)
	big := sh.Oversize
	for i := 0; i < nr; i++ {
		rl := ld.ResourceLogs().AppendEmpty()
		fillResource(tp, rl.Resource())
		rl.SetSchemaUrl(schemaURL(tp, "res"))
		ns := sh.count(tp, sh.MaxScopes)
		for j := 0; j < ns; j++ {
			sl := rl.ScopeLogs().AppendEmpty()
			fillScope(tp, sl.Scope())
			sl.SetSchemaUrl(schemaURL(tp, "scope"))
			ni := sh.count(tp, sh.MaxItems)
			for k := 0; k < ni; k++ {
				lr := sl.LogRecords().AppendEmpty()
				lr.Attributes().PutStr(IDKey, ids.Next())
				lr.SetSeverityNumber(plog.SeverityNumber(tp.Draw(5)))
				switch tp.Draw(3) {
				case 1:
					lr.Body().SetStr("hello")
				case 2:
					lr.Body().SetInt(int64(tp.Draw(100)))
				}
				if big > 0 {
					lr.Body().SetStr(strings.Repeat("x", big))
					big = 0
				}
			}
		}
	}
	return ld
}

// LogItems returns id -> fingerprint for every log record; records without an id are returned under "" keys
// with a counter suffix so that invented items are visible.
func LogItems(ld plog.Logs) map[string]string {
	out := map[string]string{}
	anon := 0
	for i := 0; i < ld.ResourceLogs().Len(); i++ {
		rl := ld.ResourceLogs().At(i)
		rfp := resFP(rl.Resource(), rl.SchemaUrl())
		for j := 0; j < rl.ScopeLogs().Len(); j++ {
			sl := rl.ScopeLogs().At(j)
			sfp := scopeFP(sl.Scope(), sl.SchemaUrl())
			for k := 0; k < sl.LogRecords().Len(); k++ {
				lr := sl.LogRecords().At(k)
				id := ""
				if v, ok := lr.Attributes().Get(IDKey); ok {
					id = v.Str()
				} else {
					anon++
					id = fmt.Sprintf("<anonymous#%d>", anon)
				}
				fp := rfp + sfp + fmt.Sprintf("item.sev=%d|item.body=%s", lr.SeverityNumber(), short(lr.Body().AsString()))
				if _, dup := out[id]; dup {
					out[id+"<dup>"] = fp
				} else {
					out[id] = fp
				}
			}
		}
	}
	return out
}

func short(s string) string {
	if len(s) > 16 {
		return fmt.Sprintf("%s…(%d)", s[:8], len(s))
	}
	return s
}

// ---- traces -------------------------------------------------------------------------------------------------

func Traces(tp *simkit.Tape, ids *IDs, sh Shape) ptrace.Traces {
	td := ptrace.NewTraces()
	nr := sh.count(tp, sh.MaxResources)
	big := sh.Oversize
	for i := 0; i < nr; i++ {
		rs := td.ResourceSpans().AppendEmpty()
		fillResource(tp, rs.Resource())
		rs.SetSchemaUrl(schemaURL(tp, "res"))
		ns := sh.count(tp, sh.MaxScopes)
		for j := 0; j < ns; j++ {
			ss := rs.ScopeSpans().AppendEmpty()
			fillScope(tp, ss.Scope())
			ss.SetSchemaUrl(schemaURL(tp, "scope"))
			ni := sh.count(tp, sh.MaxItems)
			for k := 0; k < ni; k++ {
				sp := ss.Spans().AppendEmpty()
				sp.Attributes().PutStr(IDKey, ids.Next())
				sp.SetName([]string{"", "op", "GET /x"}[tp.Draw(3)])
				sp.SetKind(ptrace.SpanKind(tp.Draw(4)))
				if tp.Draw(3) == 0 {
					sp.Events().AppendEmpty().SetName("ev")
				}
				if big > 0 {
					sp.Attributes().PutStr("blob", strings.Repeat("y", big))
					big = 0
				}
			}
		}
	}
	return td
}

func SpanItems(td ptrace.Traces) map[string]string {
	out := map[string]string{}
	anon := 0
	for i := 0; i < td.ResourceSpans().Len(); i++ {
		rs := td.ResourceSpans().At(i)
		rfp := resFP(rs.Resource(), rs.SchemaUrl())
		for j := 0; j < rs.ScopeSpans().Len(); j++ {
			ss := rs.ScopeSpans().At(j)
			sfp := scopeFP(ss.Scope(), ss.SchemaUrl())
			for k := 0; k < ss.Spans().Len(); k++ {
				sp := ss.Spans().At(k)
				id := ""
				if v, ok := sp.Attributes().Get(IDKey); ok {
					id = v.Str()
				} else {
					anon++
					id = fmt.Sprintf("<anonymous#%d>", anon)
				}
				fp := rfp + sfp + fmt.Sprintf("item.name=%s|item.kind=%d|item.events=%d", sp.Name(), sp.Kind(), sp.Events().Len())
				if _, dup := out[id]; dup {
					out[id+"<dup>"] = fp
				} else {
					out[id] = fp
				}
			}
		}
	}
	return out
}

// ---- metrics ------------------------------------------------------------------------------------------------

func Metrics(tp *simkit.Tape, ids *IDs, sh Shape) pmetric.Metrics {
	md := pmetric.NewMetrics()
	nr := sh.count(tp, sh.MaxResources)
	for i := 0; i < nr; i++ {
		rm := md.ResourceMetrics().AppendEmpty()
		fillResource(tp, rm.Resource())
		rm.SetSchemaUrl(schemaURL(tp, "res"))
		ns := sh.count(tp, sh.MaxScopes)
		for j := 0; j < ns; j++ {
			sm := rm.ScopeMetrics().AppendEmpty()
			fillScope(tp, sm.Scope())
			sm.SetSchemaUrl(schemaURL(tp, "scope"))
			nm := sh.count(tp, sh.MaxMetrics)
			for k := 0; k < nm; k++ {
				m := sm.Metrics().AppendEmpty()
				m.SetName([]string{"m.a", "m.b", "requests"}[tp.Draw(3)])
				m.SetUnit([]string{"", "1", "ms"}[tp.Draw(3)])
				m.SetDescription([]string{"", "a description"}[tp.Draw(2)])
				if tp.Draw(3) == 0 {
					m.Metadata().PutStr("origin", "sim")
				}
				np := sh.count(tp, sh.MaxItems)
				switch tp.Draw(5) {
				case 0:
					g := m.SetEmptyGauge()
					for p := 0; p < np; p++ {
						dp := g.DataPoints().AppendEmpty()
						dp.Attributes().PutStr(IDKey, ids.Next())
						dp.SetIntValue(int64(tp.Draw(10)))
					}
				case 1:
					s := m.SetEmptySum()
					s.SetIsMonotonic(tp.Draw(2) == 1)
					s.SetAggregationTemporality(pmetric.AggregationTemporality(tp.Draw(3)))
					for p := 0; p < np; p++ {
						dp := s.DataPoints().AppendEmpty()
						dp.Attributes().PutStr(IDKey, ids.Next())
						dp.SetDoubleValue(float64(tp.Draw(10)))
					}
				case 2:
					h := m.SetEmptyHistogram()
					h.SetAggregationTemporality(pmetric.AggregationTemporality(tp.Draw(3)))
					for p := 0; p < np; p++ {
						dp := h.DataPoints().AppendEmpty()
						dp.Attributes().PutStr(IDKey, ids.Next())
						dp.SetCount(uint64(tp.Draw(10)))
					}
				case 3:
					h := m.SetEmptyExponentialHistogram()
					h.SetAggregationTemporality(pmetric.AggregationTemporality(tp.Draw(3)))
					for p := 0; p < np; p++ {
						dp := h.DataPoints().AppendEmpty()
						dp.Attributes().PutStr(IDKey, ids.Next())
						dp.SetCount(uint64(tp.Draw(10)))
					}
				case 4:
					s := m.SetEmptySummary()
					for p := 0; p < np; p++ {
						dp := s.DataPoints().AppendEmpty()
						dp.Attributes().PutStr(IDKey, ids.Next())
						dp.SetCount(uint64(tp.Draw(10)))
					}
				}
			}
		}
	}
	return md
}

func metricFP(m pmetric.Metric) string {
	temp, mono := "-", "-"
	switch m.Type() {
	case pmetric.MetricTypeSum:
		mono = fmt.Sprint(m.Sum().IsMonotonic())
		temp = fmt.Sprint(int(m.Sum().AggregationTemporality()))
	case pmetric.MetricTypeHistogram:
		temp = fmt.Sprint(int(m.Histogram().AggregationTemporality()))
	case pmetric.MetricTypeExponentialHistogram:
		temp = fmt.Sprint(int(m.ExponentialHistogram().AggregationTemporality()))
	}
	return fmt.Sprintf("metric.name=%s|metric.unit=%s|metric.desc=%s|metric.type=%s|metric.temp=%s|metric.mono=%s|metric.meta=%s|", m.Name(), m.Unit(), m.Description(), m.Type(), temp, mono, attrString(m.Metadata()))
}

// DiffFields names the fingerprint components that differ between two fingerprints, e.g. ["metric.name","metric.unit"].
func DiffFields(a, b string) []string {
	pa, pb := map[string]string{}, map[string]string{}
	for _, kv := range strings.Split(a, "|") {
		if i := strings.IndexByte(kv, '='); i > 0 {
			pa[kv[:i]] = kv[i+1:]
		}
	}
	for _, kv := range strings.Split(b, "|") {
		if i := strings.IndexByte(kv, '='); i > 0 {
			pb[kv[:i]] = kv[i+1:]
		}
	}
	var out []string
	for k, v := range pa {
		if pb[k] != v {
			out = append(out, k)
		}
	}
	for k := range pb {
		if _, ok := pa[k]; !ok {
			out = append(out, k)
		}
	}
	sort.Strings(out)
	return out
}

func PointItems(md pmetric.Metrics) map[string]string {
	out := map[string]string{}
	anon := 0
	add := func(attrs pcommon.Map, fp string, val string) {
		id := ""
		if v, ok := attrs.Get(IDKey); ok {
			id = v.Str()
		} else {
			anon++
			id = fmt.Sprintf("<anonymous#%d>", anon)
		}
		if _, dup := out[id]; dup {
			id += "<dup>"
		}
		out[id] = fp + "item.value=" + val
	}
	for i := 0; i < md.ResourceMetrics().Len(); i++ {
		rm := md.ResourceMetrics().At(i)
		rfp := resFP(rm.Resource(), rm.SchemaUrl())
		for j := 0; j < rm.ScopeMetrics().Len(); j++ {
			sm := rm.ScopeMetrics().At(j)
			sfp := scopeFP(sm.Scope(), sm.SchemaUrl())
			for k := 0; k < sm.Metrics().Len(); k++ {
				m := sm.Metrics().At(k)
				fp := rfp + sfp + metricFP(m)
				switch m.Type() {
				case pmetric.MetricTypeGauge:
					for p := 0; p < m.Gauge().DataPoints().Len(); p++ {
						dp := m.Gauge().DataPoints().At(p)
						add(dp.Attributes(), fp, fmt.Sprint(dp.IntValue()))
					}
				case pmetric.MetricTypeSum:
					for p := 0; p < m.Sum().DataPoints().Len(); p++ {
						dp := m.Sum().DataPoints().At(p)
						add(dp.Attributes(), fp, fmt.Sprint(dp.DoubleValue()))
					}
				case pmetric.MetricTypeHistogram:
					for p := 0; p < m.Histogram().DataPoints().Len(); p++ {
						dp := m.Histogram().DataPoints().At(p)
						add(dp.Attributes(), fp, fmt.Sprint(dp.Count()))
					}
				case pmetric.MetricTypeExponentialHistogram:
					for p := 0; p < m.ExponentialHistogram().DataPoints().Len(); p++ {
						dp := m.ExponentialHistogram().DataPoints().At(p)
						add(dp.Attributes(), fp, fmt.Sprint(dp.Count()))
					}
				case pmetric.MetricTypeSummary:
					for p := 0; p < m.Summary().DataPoints().Len(); p++ {
						dp := m.Summary().DataPoints().At(p)
						add(dp.Attributes(), fp, fmt.Sprint(dp.Count()))
					}
				}
			}
		}
	}
	return out
}

// DiffItems compares two id->fingerprint maps; returns "" when equal, else a description of the first differences.
func DiffItems(want, got map[string]string) string {
	var msgs []string
	keys := make([]string, 0, len(want))
	for k := range want {
		keys = append(keys, k)
	}
	sort.Strings(keys)
	for _, k := range keys {
		g, ok := got[k]
		if !ok {
			msgs = append(msgs, "missing item "+k)
		} else if g != want[k] {
			msgs = append(msgs, fmt.Sprintf("item %s changed context: sent %s, received %s", k, want[k], g))
		}
		if len(msgs) >= 4 {
			break
		}
	}
	gk := make([]string, 0)
	for k := range got {
		if _, ok := want[k]; !ok {
			gk = append(gk, k)
		}
	}
	sort.Strings(gk)
	for _, k := range gk {
		msgs = append(msgs, "unexpected item "+k+" "+got[k])
		if len(msgs) >= 6 {
			break
		}
	}
	return strings.Join(msgs, "; ")
}

// Gen generates a payload of the named signal ("logs", "traces", "metrics").
func (sh Shape) Gen(tp *simkit.Tape, ids *IDs, signal string) any {
	switch signal {
	case "logs":
		return Logs(tp, ids, sh)
	case "traces":
		return Traces(tp, ids, sh)
	case "profiles":
		return Profiles(tp, ids, sh)
	}
	return Metrics(tp, ids, sh)
}

// ---- profiles (items are samples; the id is the sample's first value) ------------------------------------------

func Profiles(tp *simkit.Tape, ids *IDs, sh Shape) pprofile.Profiles {
	pd := pprofile.NewProfiles()
	nr := sh.count(tp, sh.MaxResources)
	for i := 0; i < nr; i++ {
		rp := pd.ResourceProfiles().AppendEmpty()
		fillResource(tp, rp.Resource())
		rp.SetSchemaUrl(schemaURL(tp, "res"))
		ns := sh.count(tp, sh.MaxScopes)
		for j := 0; j < ns; j++ {
			sp := rp.ScopeProfiles().AppendEmpty()
			fillScope(tp, sp.Scope())
			sp.SetSchemaUrl(schemaURL(tp, "scope"))
			np := sh.count(tp, sh.MaxMetrics)
			for k := 0; k < np; k++ {
				p := sp.Profiles().AppendEmpty()
				p.SetPeriod(int64(1 + tp.Draw(3)))
				p.SetOriginalPayloadFormat([]string{"", "pprof"}[tp.Draw(2)])
				var pid pprofile.ProfileID
				pid[0] = byte(1 + tp.Draw(3))
				p.SetProfileID(pid)
				nsm := sh.count(tp, sh.MaxItems)
				for q := 0; q < nsm; q++ {
					s := p.Sample().AppendEmpty()
					idn := ids.Next()
					var n int64
					fmt.Sscanf(strings.TrimLeft(idn, "abcdefghijklmnopqrstuvwxyz"), "%d", &n)
					s.Value().Append(n)
					s.Value().Append(int64(tp.Draw(5)))
				}
			}
		}
	}
	return pd
}

// SampleItems returns id -> fingerprint for every profile sample; prefix is the id prefix used by the generator.
func SampleItems(pd pprofile.Profiles, prefix string) map[string]string {
	out := map[string]string{}
	anon := 0
	for i := 0; i < pd.ResourceProfiles().Len(); i++ {
		rp := pd.ResourceProfiles().At(i)
		rfp := resFP(rp.Resource(), rp.SchemaUrl())
		for j := 0; j < rp.ScopeProfiles().Len(); j++ {
			sp := rp.ScopeProfiles().At(j)
			sfp := scopeFP(sp.Scope(), sp.SchemaUrl())
			for k := 0; k < sp.Profiles().Len(); k++ {
				p := sp.Profiles().At(k)
				pfp := fmt.Sprintf("profile.id=%s|profile.period=%d|profile.format=%s|", p.ProfileID(), p.Period(), p.OriginalPayloadFormat())
				for q := 0; q < p.Sample().Len(); q++ {
					s := p.Sample().At(q)
					id := ""
					val := ""
					if s.Value().Len() > 0 {
						id = fmt.Sprintf("%s%d", prefix, s.Value().At(0))
						if s.Value().Len() > 1 {
							val = fmt.Sprint(s.Value().At(1))
						}
					} else {
						anon++
						id = fmt.Sprintf("<anonymous#%d>", anon)
					}
					if _, dup := out[id]; dup {
						id += "<dup>"
					}
					out[id] = rfp + sfp + pfp + "item.value=" + val
				}
			}
		}
	}
	return out
}
