package gen

import (
	"crypto/sha1"
	"encoding/hex"
	"fmt"

	"go.opentelemetry.io/collector/pdata/pcommon"
	"go.opentelemetry.io/collector/pdata/plog"
	"go.opentelemetry.io/collector/pdata/pmetric"
	"go.opentelemetry.io/collector/pdata/pprofile"
	"go.opentelemetry.io/collector/pdata/ptrace"
)

// DeepItems returns id -> hash of the item's COMPLETE content and context: the wire form of a payload that holds only
// that item with copies of its resource, scope, schema URLs and (metrics) its metric's own fields. The field-level
// fingerprints (LogItems, ...) name what differs; this says whether anything at all differs, whatever the generator or
// gen.Enrich put into the item. Items without an id are skipped (the fingerprint maps report those).
func DeepItems(payload any) map[string]string {
	out := map[string]string{}
	h := func(b []byte, err error) string {
		if err != nil {
			panic(err)
		}
		s := sha1.Sum(b)
		return hex.EncodeToString(s[:8])
	}
	idOf := func(m pcommon.Map) string {
		if v, ok := m.Get(IDKey); ok {
			return v.Str()
		}
		return ""
	}
	switch p := payload.(type) {
	case plog.Logs:
		for i := 0; i < p.ResourceLogs().Len(); i++ {
			rl := p.ResourceLogs().At(i)
			for j := 0; j < rl.ScopeLogs().Len(); j++ {
				sl := rl.ScopeLogs().At(j)
				for k := 0; k < sl.LogRecords().Len(); k++ {
					lr := sl.LogRecords().At(k)
					id := idOf(lr.Attributes())
					if id == "" {
						continue
					}
					d := plog.NewLogs()
					drl := d.ResourceLogs().AppendEmpty()
					rl.Resource().CopyTo(drl.Resource())
					drl.SetSchemaUrl(rl.SchemaUrl())
					dsl := drl.ScopeLogs().AppendEmpty()
					sl.Scope().CopyTo(dsl.Scope())
					dsl.SetSchemaUrl(sl.SchemaUrl())
					lr.CopyTo(dsl.LogRecords().AppendEmpty())
					out[id] = h((&plog.ProtoMarshaler{}).MarshalLogs(d))
				}
			}
		}
	case ptrace.Traces:
		for i := 0; i < p.ResourceSpans().Len(); i++ {
			rs := p.ResourceSpans().At(i)
			for j := 0; j < rs.ScopeSpans().Len(); j++ {
				ss := rs.ScopeSpans().At(j)
				for k := 0; k < ss.Spans().Len(); k++ {
					sp := ss.Spans().At(k)
					id := idOf(sp.Attributes())
					if id == "" {
						continue
					}
					d := ptrace.NewTraces()
					drs := d.ResourceSpans().AppendEmpty()
					rs.Resource().CopyTo(drs.Resource())
					drs.SetSchemaUrl(rs.SchemaUrl())
					dss := drs.ScopeSpans().AppendEmpty()
					ss.Scope().CopyTo(dss.Scope())
					dss.SetSchemaUrl(ss.SchemaUrl())
					sp.CopyTo(dss.Spans().AppendEmpty())
					out[id] = h((&ptrace.ProtoMarshaler{}).MarshalTraces(d))
				}
			}
		}
	case pmetric.Metrics:
		for i := 0; i < p.ResourceMetrics().Len(); i++ {
			rm := p.ResourceMetrics().At(i)
			for j := 0; j < rm.ScopeMetrics().Len(); j++ {
				sm := rm.ScopeMetrics().At(j)
				for k := 0; k < sm.Metrics().Len(); k++ {
					m := sm.Metrics().At(k)
					// the metric with one data point at a time
					shell := func() (pmetric.Metrics, pmetric.Metric) {
						d := pmetric.NewMetrics()
						drm := d.ResourceMetrics().AppendEmpty()
						rm.Resource().CopyTo(drm.Resource())
						drm.SetSchemaUrl(rm.SchemaUrl())
						dsm := drm.ScopeMetrics().AppendEmpty()
						sm.Scope().CopyTo(dsm.Scope())
						dsm.SetSchemaUrl(sm.SchemaUrl())
						dm := dsm.Metrics().AppendEmpty()
						dm.SetName(m.Name())
						dm.SetDescription(m.Description())
						dm.SetUnit(m.Unit())
						m.Metadata().CopyTo(dm.Metadata())
						return d, dm
					}
					fin := func(id string, d pmetric.Metrics) {
						if id != "" {
							out[id] = h((&pmetric.ProtoMarshaler{}).MarshalMetrics(d))
						}
					}
					switch m.Type() {
					case pmetric.MetricTypeGauge:
						for q := 0; q < m.Gauge().DataPoints().Len(); q++ {
							d, dm := shell()
							m.Gauge().DataPoints().At(q).CopyTo(dm.SetEmptyGauge().DataPoints().AppendEmpty())
							fin(idOf(m.Gauge().DataPoints().At(q).Attributes()), d)
						}
					case pmetric.MetricTypeSum:
						for q := 0; q < m.Sum().DataPoints().Len(); q++ {
							d, dm := shell()
							s := dm.SetEmptySum()
							s.SetAggregationTemporality(m.Sum().AggregationTemporality())
							s.SetIsMonotonic(m.Sum().IsMonotonic())
							m.Sum().DataPoints().At(q).CopyTo(s.DataPoints().AppendEmpty())
							fin(idOf(m.Sum().DataPoints().At(q).Attributes()), d)
						}
					case pmetric.MetricTypeHistogram:
						for q := 0; q < m.Histogram().DataPoints().Len(); q++ {
							d, dm := shell()
							s := dm.SetEmptyHistogram()
							s.SetAggregationTemporality(m.Histogram().AggregationTemporality())
							m.Histogram().DataPoints().At(q).CopyTo(s.DataPoints().AppendEmpty())
							fin(idOf(m.Histogram().DataPoints().At(q).Attributes()), d)
						}
					case pmetric.MetricTypeExponentialHistogram:
						for q := 0; q < m.ExponentialHistogram().DataPoints().Len(); q++ {
							d, dm := shell()
							s := dm.SetEmptyExponentialHistogram()
							s.SetAggregationTemporality(m.ExponentialHistogram().AggregationTemporality())
							m.ExponentialHistogram().DataPoints().At(q).CopyTo(s.DataPoints().AppendEmpty())
							fin(idOf(m.ExponentialHistogram().DataPoints().At(q).Attributes()), d)
						}
					case pmetric.MetricTypeSummary:
						for q := 0; q < m.Summary().DataPoints().Len(); q++ {
							d, dm := shell()
							m.Summary().DataPoints().At(q).CopyTo(dm.SetEmptySummary().DataPoints().AppendEmpty())
							fin(idOf(m.Summary().DataPoints().At(q).Attributes()), d)
						}
					}
				}
			}
		}
	case pprofile.Profiles:
		for i := 0; i < p.ResourceProfiles().Len(); i++ {
			rp := p.ResourceProfiles().At(i)
			for j := 0; j < rp.ScopeProfiles().Len(); j++ {
				sp := rp.ScopeProfiles().At(j)
				for k := 0; k < sp.Profiles().Len(); k++ {
					pr := sp.Profiles().At(k)
					// a profile is indivisible: its whole content is the context of each of its samples
					d := pprofile.NewProfiles()
					drp := d.ResourceProfiles().AppendEmpty()
					rp.Resource().CopyTo(drp.Resource())
					drp.SetSchemaUrl(rp.SchemaUrl())
					dsp := drp.ScopeProfiles().AppendEmpty()
					sp.Scope().CopyTo(dsp.Scope())
					dsp.SetSchemaUrl(sp.SchemaUrl())
					pr.CopyTo(dsp.Profiles().AppendEmpty())
					hh := h((&pprofile.ProtoMarshaler{}).MarshalProfiles(d))
					for q := 0; q < pr.Sample().Len(); q++ {
						if s := pr.Sample().At(q); s.Value().Len() > 0 {
							out[fmt.Sprintf("i%d", s.Value().At(0))] = hh
						}
					}
				}
			}
		}
	}
	return out
}
