package simkit

import (
	"encoding/binary"
	"encoding/json"
	"fmt"
	"hash/fnv"
	mrand "math/rand"
	"os"
	"regexp"
	"runtime"
	"runtime/debug"
	"sort"
	"strconv"
	"strings"
	"testing"
	"testing/synctest"
	"time"
)

// Harness is one property check. Run is executed inside a synctest bubble unless NoBubble is set.
type Harness struct {
	Prop     string
	Name     string
	Run      func(r *Run)
	NoBubble bool
	// RateLimit caps the runs per second of one worker (0 = unlimited). Used by the harnesses on real loopback
	// sockets: every run leaves connections in TIME_WAIT for 60 s and the ephemeral port range is finite.
	RateLimit float64
	// HashInsensitive: replay is judged by the violation key only. For harnesses whose code under test iterates Go
	// maps (graph construction): the oracle is order-independent but the event log is not byte-stable.
	HashInsensitive bool
	// StepTimeout overrides the watchdog limit (real seconds without a Beat).
	StepTimeout time.Duration
	// Real / Stub component lists, copied to the evidence.
	Real []string
	Stub []string
	// Rule describes generation and the non-trivial/distinct rule, copied to the evidence.
	Rule string
	// Tier-dependent knobs can be read by the harness from Tier().
}

// Tier returns "quick" or "thorough".
func Tier() string {
	if os.Getenv("VERIF_TIER") == "thorough" {
		return "thorough"
	}
	return "quick"
}

type ReplayFile struct {
	Property   string           `json:"property"`
	Harness    string           `json:"harness"`
	Seed       uint64           `json:"seed"`
	Tape       []int            `json:"tape"`
	Violation  *Violation       `json:"violation"`
	LogHash    string           `json:"log_hash"`
	Log        []string         `json:"log"`
	Sample     any              `json:"sample,omitempty"`
	Counters   map[string]int64 `json:"fired,omitempty"`
	Shrunk     bool             `json:"shrunk"`
	ShrinkNote string           `json:"shrink_note,omitempty"`
	Tier       string           `json:"tier,omitempty"`
	// History: the violation depends on what earlier runs of the same worker process left behind in the code under
	// test (package-level state: a pool, a cache, a shared sentinel). The replay executes the search-mode runs
	// First..Last of (BatchSeed, Worker) in one fresh process, each from its derived seed; the violation must occur in
	// run Last, whose event-log hash is LogHash. Tape then holds the un-minimised tape of run Last, for information.
	History *History `json:"history,omitempty"`
}

type History struct {
	BatchSeed uint64 `json:"batch_seed"`
	Worker    int    `json:"worker"`
	First     int    `json:"first_run"`
	Last      int    `json:"last_run"`
	Note      string `json:"note,omitempty"`
}

type WorkerOut struct {
	Property   string           `json:"property"`
	Harness    string           `json:"harness"`
	Worker     int              `json:"worker"`
	BatchSeed  uint64           `json:"batch_seed"`
	Runs       int              `json:"runs"`
	Cases      int              `json:"cases"`
	Events     int              `json:"events"`
	WallS      float64          `json:"wall_s"`
	VirtualS   float64          `json:"virtual_s"`
	Counters   map[string]int64 `json:"counters"`
	States     []string         `json:"states"`
	Trans      []string         `json:"transitions"`
	Samples    []any            `json:"samples"`
	KnownHits  map[string]int   `json:"known_hits"`
	Violation  *Violation       `json:"violation,omitempty"`
	ReplayPath string           `json:"replay_path,omitempty"`
	Nontrivial int              `json:"nontrivial_runs"`
	HashFile   string           `json:"hash_file"`
	Real       []string         `json:"real"`
	Stub       []string         `json:"stub"`
	Rule       string           `json:"rule"`
	Status     string           `json:"status"` // ok | violation | replay-ok | replay-mismatch
	// RunIndex / RawLogHash / RawTape: position in this worker's run sequence, event-log hash and tape of the run that
	// failed, before minimisation (for history replays)
	RunIndex   int    `json:"run_index,omitempty"`
	RawLogHash string `json:"raw_log_hash,omitempty"`
	RawTape    []int  `json:"raw_tape,omitempty"`
	Detail     string `json:"detail,omitempty"`
}

func envInt(name string, def int) int {
	if s := os.Getenv(name); s != "" {
		if v, err := strconv.Atoi(s); err == nil {
			return v
		}
	}
	return def
}

func envU64(name string, def uint64) uint64 {
	if s := os.Getenv(name); s != "" {
		if v, err := strconv.ParseUint(s, 10, 64); err == nil {
			return v
		}
		if v, err := strconv.ParseInt(s, 10, 64); err == nil {
			return uint64(v)
		}
	}
	return def
}

type watchdog struct {
	progressPath string
	limit        time.Duration
	cur          *Tape
	curRun       *Run
	curProp      string
	armed        bool
}

var wd watchdog

func startWatchdog(limit time.Duration, hangPath string) {
	if limit <= 0 {
		limit = 20 * time.Second
	}
	wd.limit = limit
	go func() {
		last := beat.Load()
		lastChange := time.Now()
		ticks := 0
		for {
			time.Sleep(250 * time.Millisecond)
			b := beat.Load()
			if b != last || !wd.armed {
				last = b
				lastChange = time.Now()
			} else if time.Since(lastChange) > wd.limit {
				dumpHang(hangPath, "no quiescence within "+wd.limit.String())
			}
			ticks++
			if ticks%4 == 0 {
				var ms runtime.MemStats
				runtime.ReadMemStats(&ms)
				if ms.HeapAlloc > 3<<30 {
					dumpHang(hangPath, "heap above 3GiB")
				}
			}
		}
	}()
}

func dumpHang(path, why string) {
	buf := make([]byte, 1<<20)
	n := runtime.Stack(buf, true)
	rf := map[string]any{"why": why, "property": wd.curProp}
	if wd.cur != nil {
		rf["seed"] = wd.cur.Seed
		rf["tape"] = append([]int(nil), wd.cur.Vals...)
	}
	if wd.curRun != nil {
		rf["log"] = append([]string(nil), wd.curRun.log...)
		rf["sample"] = wd.curRun.Sample
	}
	rf["stacks"] = string(buf[:n])
	if path != "" {
		b, _ := json.MarshalIndent(rf, "", " ")
		_ = os.WriteFile(path, b, 0o644)
	}
	fmt.Fprintf(os.Stderr, "WATCHDOG: %s (tape written to %s)\n", why, path)
	os.Exit(3)
}

// ExecRun executes one run of h on the given tape and returns its Run record.
func ExecRun(t *testing.T, h Harness, tape *Tape) (r *Run) {
	r = newRun(h.Prop, tape)
	// Code under test that uses the global math/rand source (back-off jitter) is pinned to the run's seed.
	mrand.Seed(int64(tape.Seed)) //nolint:staticcheck
	wd.cur = tape
	wd.curRun = r
	wd.curProp = h.Prop
	wd.armed = true
	Beat()
	defer func() {
		wd.armed = false
		if p := recover(); p != nil {
			msg := fmt.Sprint(p)
			if strings.Contains(msg, "deadlock") {
				// synctest: root returned (or everything is blocked) while goroutines of the bubble remain.
				r.Failf("leak", "bubble", "goroutines left blocked at end of run: %s", msg)
			} else {
				r.Failf("panic", "root", "panic in run: %s\n%s", msg, shortStack())
			}
		}
	}()
	if h.NoBubble {
		h.Run(r)
		return r
	}
	synctest.Test(t, func(*testing.T) { h.Run(r) })
	return r
}

func shortStack() string {
	s := string(debug.Stack())
	if len(s) > 4000 {
		s = s[:4000]
	}
	return s
}

type knownFile struct {
	Findings []struct {
		Property string `json:"property"`
		Key      string `json:"key"`
		KeyRegex string `json:"key_regex"`
		Status   string `json:"status"`
	} `json:"findings"`
}

// Known is the set of recorded (not repaired) findings of one property: exact keys and key patterns.
type Known struct {
	exact map[string]bool
	res   []*regexp.Regexp
	names []string
}

func (k *Known) Match(key string) (string, bool) {
	if k == nil {
		return "", false
	}
	if k.exact[key] {
		return key, true
	}
	for i, re := range k.res {
		if re.MatchString(key) {
			return k.names[i], true
		}
	}
	return "", false
}

func loadKnown(prop string) *Known {
	out := &Known{exact: map[string]bool{}}
	p := os.Getenv("VERIF_KNOWN")
	if p == "" {
		return out
	}
	b, err := os.ReadFile(p)
	if err != nil {
		return out
	}
	var kf knownFile
	if json.Unmarshal(b, &kf) != nil {
		return out
	}
	for _, f := range kf.Findings {
		if f.Property == prop && f.Status == "known" {
			if f.KeyRegex != "" {
				if re, err := regexp.Compile("^(?:" + f.KeyRegex + ")$"); err == nil {
					out.res = append(out.res, re)
					out.names = append(out.names, f.Key)
				}
			} else {
				out.exact[f.Key] = true
			}
		}
	}
	return out
}

func hash64(s string) uint64 {
	h := fnv.New64a()
	h.Write([]byte(s))
	return h.Sum64()
}

// firstUnknown returns the first violation of the run whose key is not a known finding.
func firstUnknown(r *Run, known *Known) *Violation {
	for _, v := range r.Viols {
		if _, ok := known.Match(v.Key()); !ok {
			return v
		}
	}
	return nil
}

// Main is called from the harness' Test function. Behaviour is selected by environment variables set by the
// driver (/verif/check): VERIF_MODE=search|replay, VERIF_SEED, VERIF_WORKER, VERIF_BUDGET_S, VERIF_RUNS,
// VERIF_OUT (json result), VERIF_REPLAY (replay file), VERIF_REPLAY_DIR, VERIF_KNOWN.
func Main(t *testing.T, h Harness) {
	mode := os.Getenv("VERIF_MODE")
	if mode == "" {
		mode = "search"
	}
	out := os.Getenv("VERIF_OUT")
	hangPath := out + ".hang"
	if out == "" {
		hangPath = ""
	}
	startWatchdog(h.StepTimeout, hangPath)
	switch mode {
	case "replay":
		mainReplay(t, h, out)
	default:
		mainSearch(t, h, out)
	}
}

func writeJSON(path string, v any) {
	if path == "" {
		return
	}
	b, err := json.MarshalIndent(v, "", " ")
	if err != nil {
		fmt.Fprintln(os.Stderr, "marshal:", err)
		os.Exit(2)
	}
	if err := os.WriteFile(path, b, 0o644); err != nil {
		fmt.Fprintln(os.Stderr, "write:", err)
		os.Exit(2)
	}
}

func mainReplay(t *testing.T, h Harness, out string) {
	p := os.Getenv("VERIF_REPLAY")
	b, err := os.ReadFile(p)
	if err != nil {
		fmt.Fprintln(os.Stderr, "replay: cannot read", p, err)
		os.Exit(2)
	}
	var rf ReplayFile
	if err := json.Unmarshal(b, &rf); err != nil {
		fmt.Fprintln(os.Stderr, "replay: bad file", err)
		os.Exit(2)
	}
	if rf.Tier != "" {
		os.Setenv("VERIF_TIER", rf.Tier)
	}
	// as in search mode a run that hits a recorded known finding keeps going (the violation to reproduce may come later)
	globalKnown = loadKnown(h.Prop)
	var r *Run
	if hs := rf.History; hs != nil {
		// the runs that came before it in the worker's sequence first, verdicts ignored
		for i := hs.First; i < hs.Last; i++ {
			ExecRun(t, h, NewSearchTape(Mix(hs.BatchSeed, hs.Worker, i)))
		}
		r = ExecRun(t, h, NewSearchTape(Mix(hs.BatchSeed, hs.Worker, hs.Last)))
	} else {
		r = ExecRun(t, h, NewReplayTape(rf.Seed, rf.Tape))
	}
	wo := WorkerOut{Property: h.Prop, Harness: h.Name, Runs: 1, Events: r.Events, Counters: r.Counters}
	var got *Violation
	if rf.Violation != nil {
		for _, v := range r.Viols {
			if v.Key() == rf.Violation.Key() {
				got = v
				break
			}
		}
	}
	if got == nil && len(r.Viols) > 0 {
		got = r.Viols[0]
	}
	wo.Violation = got
	switch {
	case rf.Violation == nil && got == nil:
		wo.Status = "replay-ok"
	case rf.Violation != nil && got != nil && got.Key() == rf.Violation.Key() && (rf.LogHash == "" || rf.LogHash == r.LogHash() || h.HashInsensitive):
		wo.Status = "replay-ok"
	case rf.Violation != nil && got != nil && got.Key() == rf.Violation.Key():
		wo.Status = "replay-mismatch"
		wo.Detail = "same violation, different event log hash: " + r.LogHash() + " vs " + rf.LogHash
	default:
		wo.Status = "replay-mismatch"
		wo.Detail = "violation did not reproduce"
	}
	if os.Getenv("VERIF_VERBOSE") != "" {
		for _, l := range r.Log() {
			fmt.Println(l)
		}
	}
	if got != nil {
		fmt.Printf("REPLAY violation %s: %s\n", got.Key(), got.Msg)
	}
	fmt.Printf("REPLAY status=%s loghash=%s %s\n", wo.Status, r.LogHash(), wo.Detail)
	writeJSON(out, wo)
}

func mainSearch(t *testing.T, h Harness, out string) {
	seed := envU64("VERIF_SEED", 1)
	worker := envInt("VERIF_WORKER", 0)
	budget := time.Duration(envInt("VERIF_BUDGET_S", 20)) * time.Second
	maxRuns := envInt("VERIF_RUNS", 0)
	replayDir := os.Getenv("VERIF_REPLAY_DIR")
	known := loadKnown(h.Prop)
	globalKnown = known

	progress := (*os.File)(nil)
	if out != "" {
		progress, _ = os.Create(out + ".progress")
	}

	exact := envU64("VERIF_EXACT_SEED", 0)
	var detlog *os.File
	if p := os.Getenv("VERIF_DETLOG"); p != "" {
		detlog, _ = os.Create(p)
		defer detlog.Close()
	}
	start := time.Now()
	wo := WorkerOut{Property: h.Prop, Harness: h.Name, Worker: worker, BatchSeed: seed, Counters: map[string]int64{},
		KnownHits: map[string]int{}, Real: h.Real, Stub: h.Stub, Rule: h.Rule, Status: "ok"}
	states := map[string]struct{}{}
	trans := map[string]struct{}{}
	allHashes := map[uint64]struct{}{}
	ntHashes := map[uint64]struct{}{}
	var virt time.Duration

	for i := 0; ; i++ {
		if maxRuns > 0 && i >= maxRuns {
			break
		}
		if time.Since(start) > budget && i > 0 {
			break
		}
		if h.RateLimit > 0 {
			if ahead := time.Duration(float64(i)/h.RateLimit*float64(time.Second)) - time.Since(start); ahead > 0 {
				time.Sleep(ahead)
			}
		}
		ds := Mix(seed, worker, i)
		if exact != 0 {
			ds = exact
		}
		if progress != nil {
			var b [8]byte
			binary.LittleEndian.PutUint64(b[:], ds)
			_, _ = progress.WriteAt(b[:], 0)
		}
		r := ExecRun(t, h, NewSearchTape(ds))
		wo.Runs++
		wo.Events += r.Events
		if r.Cases > 0 {
			wo.Cases += r.Cases
		} else {
			wo.Cases++
		}
		virt += r.Virtual
		for k, v := range r.Counters {
			wo.Counters[k] += v
		}
		for k := range r.States {
			states[k] = struct{}{}
		}
		for k := range r.Trans {
			trans[k] = struct{}{}
		}
		if detlog != nil {
			fmt.Fprintf(detlog, "%d %s %d\n", ds, r.LogHash(), r.Events)
		}
		if os.Getenv("VERIF_DUMPLOG") != "" {
			for _, l := range r.Log() {
				fmt.Println(l)
			}
		}
		hh := hash64(r.LogHash())
		if len(r.caseHashes) > 0 {
			for ch, nt := range r.caseHashes {
				allHashes[ch] = struct{}{}
				if nt {
					ntHashes[ch] = struct{}{}
				}
			}
			if r.Nontrivial {
				wo.Nontrivial++
			}
		} else {
			allHashes[hh] = struct{}{}
			if r.Nontrivial {
				wo.Nontrivial++
				ntHashes[hh] = struct{}{}
			}
		}
		if len(wo.Samples) < 3 && r.Sample != nil && (r.Nontrivial || i > 8) {
			wo.Samples = append(wo.Samples, map[string]any{"seed": ds, "case": r.Sample, "events": tail(r.Log(), 40)})
		}
		hitOnce := map[string]bool{}
		for _, v := range r.Viols {
			if name, ok := known.Match(v.Key()); ok && !hitOnce[name] {
				hitOnce[name] = true
				wo.KnownHits[name]++
			}
		}
		if v := firstUnknown(r, known); v != nil {
			// confirm + minimise in-process, then write the replay file
			rf := &ReplayFile{Property: h.Prop, Harness: h.Name, Seed: ds, Tape: append([]int(nil), r.Tape.Vals...),
				Violation: v, LogHash: r.LogHash(), Log: r.Log(), Sample: r.Sample, Counters: r.Counters, Tier: Tier()}
			if r.OverrideTape != nil {
				// the harness points the replay at one sub-case: re-execute it to obtain its own log and hash
				r2 := ExecRun(t, h, NewReplayTape(ds, r.OverrideTape))
				for _, v2 := range r2.Viols {
					if v2.Key() == v.Key() {
						rf = &ReplayFile{Property: h.Prop, Harness: h.Name, Seed: ds, Tape: append([]int(nil), r2.Tape.Vals...),
							Violation: v2, LogHash: r2.LogHash(), Log: r2.Log(), Sample: r2.Sample, Counters: r2.Counters, Tier: Tier()}
						break
					}
				}
			}
			path := ""
			if replayDir != "" {
				_ = os.MkdirAll(replayDir, 0o755)
				path = fmt.Sprintf("%s/%s-%d.json", replayDir, h.Prop, ds)
				writeJSON(path, rf) // un-minimised first: survives a death during minimisation
			}
			if os.Getenv("VERIF_NOSHRINK") == "" {
				rf = Shrink(t, h, rf, known, 45*time.Second)
				if path != "" {
					writeJSON(path, rf)
				}
			}
			wo.Violation = rf.Violation
			wo.ReplayPath = path
			wo.Status = "violation"
			wo.RunIndex = i
			wo.RawLogHash = r.LogHash()
			wo.RawTape = append([]int(nil), r.Tape.Vals...)
			break
		}
	}
	wo.WallS = time.Since(start).Seconds()
	wo.VirtualS = virt.Seconds()
	wo.States = keys(states)
	wo.Trans = keys(trans)
	if out != "" {
		wo.HashFile = out + ".hashes"
		writeHashes(wo.HashFile, allHashes, ntHashes)
	}
	writeJSON(out, wo)
	if progress != nil {
		progress.Close()
		os.Remove(out + ".progress")
	}
	if wo.Status == "violation" {
		fmt.Printf("WORKER-VIOLATION property=%s key=%s replay=%s\n", h.Prop, wo.Violation.Key(), wo.ReplayPath)
	}
}

func tail(l []string, n int) []string {
	if len(l) > n {
		out := []string{fmt.Sprintf("… (%d earlier lines)", len(l)-n)}
		return append(out, l[len(l)-n:]...)
	}
	return l
}

func keys(m map[string]struct{}) []string {
	out := make([]string, 0, len(m))
	for k := range m {
		out = append(out, k)
	}
	sort.Strings(out)
	if len(out) > 5000 {
		out = out[:5000]
	}
	return out
}

func writeHashes(path string, all, nt map[uint64]struct{}) {
	f, err := os.Create(path)
	if err != nil {
		return
	}
	defer f.Close()
	buf := make([]byte, 0, 9*(len(all)))
	for h := range all {
		flag := byte(0)
		if _, ok := nt[h]; ok {
			flag = 1
		}
		buf = append(buf, flag)
		buf = binary.LittleEndian.AppendUint64(buf, h)
	}
	_, _ = f.Write(buf)
}
