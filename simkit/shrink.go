package simkit

import (
	"fmt"
	"testing"
	"time"
)

// Shrink minimises the tape of rf while the same violation key persists (delete spans, zero values, halve /
// decrement values). Every accepted candidate is normalised to the values the run actually consumed.
func Shrink(t *testing.T, h Harness, rf *ReplayFile, known *Known, budget time.Duration) *ReplayFile {
	key := rf.Violation.Key()
	start := time.Now()
	best := append([]int(nil), rf.Tape...)
	bestRun := (*Run)(nil)
	tried, accepted := 0, 0

	try := func(cand []int) bool {
		if time.Since(start) > budget {
			return false
		}
		tried++
		r := ExecRun(t, h, NewReplayTape(rf.Seed, cand))
		for _, v := range r.Viols {
			if v.Key() == key {
				// normalise: keep what was consumed, trimmed of trailing zeros
				n := append([]int(nil), r.Tape.Vals...)
				for len(n) > 0 && n[len(n)-1] == 0 {
					n = n[:len(n)-1]
				}
				if bestRun != nil && !(len(n) < len(best) || (len(n) == len(best) && lexLess(n, best))) {
					return false // not an improvement (the candidate consumed more than it saved)
				}
				best = n
				bestRun = r
				accepted++
				return true
			}
		}
		return false
	}

	// first: confirm the original reproduces in replay mode
	if !try(append([]int(nil), best...)) {
		rf.ShrinkNote = "original tape did not reproduce in-process on replay; not shrunk"
		return rf
	}

	improved := true
	for improved && time.Since(start) < budget {
		improved = false
		// 1. delete spans, large to small
		for size := len(best) / 2; size >= 1; size /= 2 {
			for i := 0; i+size <= len(best); {
				cand := append(append([]int(nil), best[:i]...), best[i+size:]...)
				if try(cand) {
					improved = true
				} else {
					i += size
				}
				if time.Since(start) > budget {
					break
				}
			}
		}
		// 2. zero values
		for i := 0; i < len(best); i++ {
			if best[i] == 0 {
				continue
			}
			cand := append([]int(nil), best...)
			cand[i] = 0
			if try(cand) {
				improved = true
			}
		}
		// 3. halve / decrement values
		for i := 0; i < len(best); i++ {
			for i < len(best) && best[i] > 0 {
				cand := append([]int(nil), best...)
				if cand[i] > 1 {
					cand[i] /= 2
				} else {
					cand[i]--
				}
				if !try(cand) {
					break
				}
				improved = true
			}
			if time.Since(start) > budget {
				break
			}
		}
	}
	if bestRun == nil {
		return rf
	}
	var v *Violation
	for _, x := range bestRun.Viols {
		if x.Key() == key {
			v = x
			break
		}
	}
	return &ReplayFile{Property: rf.Property, Harness: rf.Harness, Seed: rf.Seed, Tape: best, Violation: v,
		LogHash: bestRun.LogHash(), Log: bestRun.Log(), Sample: bestRun.Sample, Counters: bestRun.Counters, Shrunk: true,
		ShrinkNote: fmt.Sprintf("tape %d -> %d values, %d candidates tried, %d accepted, %.1fs", len(rf.Tape), len(best), tried, accepted, time.Since(start).Seconds()),
		Tier:       rf.Tier}
}

func lexLess(a, b []int) bool {
	for i := 0; i < len(a) && i < len(b); i++ {
		if a[i] != b[i] {
			return a[i] < b[i]
		}
	}
	return len(a) < len(b)
}
