// Package simkit is the deterministic-simulation kernel shared by all harnesses under /verif/sim.
//
// One integer decides everything: a Tape is the only source of choice in a run. In search mode it is filled
// from a PCG generator seeded with the run's derived seed and recorded; in replay mode it is read back from
// a file (values past its end read as 0, which is always the "simplest" alternative by convention).
package simkit

import (
	"math/rand/v2"
)

type Tape struct {
	Seed uint64
	Vals []int // every value handed out, in order (already reduced modulo its bound)
	src  []int // replay source; nil in search mode
	pos  int
	rng  *rand.Rand
}

func NewSearchTape(seed uint64) *Tape {
	return &Tape{Seed: seed, rng: rand.New(rand.NewPCG(seed, 0x9e3779b97f4a7c15))}
}

func NewReplayTape(seed uint64, vals []int) *Tape {
	if vals == nil {
		vals = []int{}
	}
	return &Tape{Seed: seed, src: vals}
}

// Draw returns a value in [0,n). n<=1 consumes nothing.
func (t *Tape) Draw(n int) int {
	if n <= 1 {
		return 0
	}
	var v int
	if t.src != nil {
		if t.pos < len(t.src) {
			v = t.src[t.pos] % n
			if v < 0 {
				v = -v
			}
		}
		t.pos++
	} else {
		v = t.rng.IntN(n)
	}
	t.Vals = append(t.Vals, v)
	return v
}

// Range returns a value in [lo,hi] (inclusive).
func (t *Tape) Range(lo, hi int) int {
	if hi <= lo {
		return lo
	}
	return lo + t.Draw(hi-lo+1)
}

// Chance returns true with probability num/den. False is the value 0 ("simplest").
func (t *Tape) Chance(num, den int) bool {
	if num <= 0 {
		return false
	}
	if num >= den {
		return true
	}
	// value 0..den-1; true for the top `num` values so that 0 shrinks to false.
	return t.Draw(den) >= den-num
}

// Weighted picks an index with the given integer weights; index 0 is the "simplest".
func (t *Tape) Weighted(w ...int) int {
	tot := 0
	for _, x := range w {
		if x > 0 {
			tot += x
		}
	}
	if tot == 0 {
		return 0
	}
	v := t.Draw(tot)
	for i, x := range w {
		if x <= 0 {
			continue
		}
		if v < x {
			return i
		}
		v -= x
	}
	return len(w) - 1
}

// Mix derives a per-run seed from the batch seed, the worker index and the run index (splitmix64).
func Mix(seed uint64, worker, run int) uint64 {
	x := seed ^ (uint64(worker)+1)*0x9e3779b97f4a7c15 ^ (uint64(run)+1)*0xbf58476d1ce4e5b9
	x ^= x >> 30
	x *= 0xbf58476d1ce4e5b9
	x ^= x >> 27
	x *= 0x94d049bb133111eb
	x ^= x >> 31
	return x
}
