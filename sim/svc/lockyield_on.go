//go:build lockinst

package verifsim

import (
	"go.opentelemetry.io/collector/internal/memorylimiter"
	"go.opentelemetry.io/collector/processor/batchprocessor"
)

// The build was made with the lock-site overlay (tools/lockinst.py): the injected hooks exist.
const lockInstrumented = true

func setBatchLockYield(f func(site string)) { batchprocessor.VerifLockYield = f }

// setBeforeGC: called right before the memory limiter forces a collection
func setBeforeGC(f func()) { memorylimiter.VerifBeforeGC = f }
