//go:build lockinst

package verifsim

import "go.opentelemetry.io/collector/processor/batchprocessor"

// The build was made with the lock-site overlay (tools/lockinst.py): the injected hook exists.
const lockInstrumented = true

func setBatchLockYield(f func(site string)) { batchprocessor.VerifLockYield = f }
