package verifsim

import (
	"bytes"
	"context"
	"errors"
	"fmt"
	"go.opentelemetry.io/collector/pdata/plog/plogotlp"
	"go.opentelemetry.io/collector/pdata/pmetric/pmetricotlp"
	"go.opentelemetry.io/collector/pdata/pprofile/pprofileotlp"
	"go.opentelemetry.io/collector/pdata/ptrace/ptraceotlp"
	"strings"

	"go.opentelemetry.io/collector/consumer"
	"go.opentelemetry.io/collector/consumer/xconsumer"
	"go.opentelemetry.io/collector/internal/fanoutconsumer"
	"go.opentelemetry.io/collector/pdata/pcommon"
	"go.opentelemetry.io/collector/pdata/plog"
	"go.opentelemetry.io/collector/pdata/pmetric"
	"go.opentelemetry.io/collector/pdata/pprofile"
	"go.opentelemetry.io/collector/pdata/ptrace"
	"verif.local/simkit"
	"verif.local/simkit/gen"
)

// ---- C06: fan-out isolation ---------------------------------------------------------------------------------

type pd struct {
	sig string
	// rseed seeds the reflective mutation program (program 5)
	rseed int64
}

func (p pd) gen(tp *simkit.Tape, ids *gen.IDs) any {
	sh := gen.Shape{MaxResources: 2, MaxScopes: 2, MaxMetrics: 2, MaxItems: 3}
	switch p.sig {
	case sigLogs:
		return gen.Logs(tp, ids, sh)
	case sigTraces:
		return gen.Traces(tp, ids, sh)
	case sigProfiles:
		return gen.Profiles(tp, ids, sh)
	}
	return gen.Metrics(tp, ids, sh)
}

func (p pd) bytes(x any) []byte {
	var b []byte
	var err error
	switch p.sig {
	case sigLogs:
		b, err = (&plog.ProtoMarshaler{}).MarshalLogs(x.(plog.Logs))
	case sigTraces:
		b, err = (&ptrace.ProtoMarshaler{}).MarshalTraces(x.(ptrace.Traces))
	case sigProfiles:
		b, err = (&pprofile.ProtoMarshaler{}).MarshalProfiles(x.(pprofile.Profiles))
	default:
		b, err = (&pmetric.ProtoMarshaler{}).MarshalMetrics(x.(pmetric.Metrics))
	}
	if err != nil {
		panic(err)
	}
	return b
}

// itemCount: log records, spans, metric data points or profile samples in the payload.
func (p pd) itemCount(x any) int {
	switch p.sig {
	case sigLogs:
		return x.(plog.Logs).LogRecordCount()
	case sigTraces:
		return x.(ptrace.Traces).SpanCount()
	case sigProfiles:
		return x.(pprofile.Profiles).SampleCount()
	}
	return x.(pmetric.Metrics).DataPointCount()
}

// json renders a wire-form payload for messages.
func (p pd) json(b []byte) string {
	if len(b) == 0 {
		return "<empty>"
	}
	x := p.unmarshal(b)
	var out []byte
	switch p.sig {
	case sigLogs:
		out, _ = (&plog.JSONMarshaler{}).MarshalLogs(x.(plog.Logs))
	case sigTraces:
		out, _ = (&ptrace.JSONMarshaler{}).MarshalTraces(x.(ptrace.Traces))
	case sigProfiles:
		out, _ = (&pprofile.JSONMarshaler{}).MarshalProfiles(x.(pprofile.Profiles))
	default:
		out, _ = (&pmetric.JSONMarshaler{}).MarshalMetrics(x.(pmetric.Metrics))
	}
	if len(out) > 6000 {
		return string(out[:6000]) + "…"
	}
	return string(out)
}

func (p pd) unmarshal(b []byte) any {
	var x any
	var err error
	switch p.sig {
	case sigLogs:
		x, err = (&plog.ProtoUnmarshaler{}).UnmarshalLogs(b)
	case sigTraces:
		x, err = (&ptrace.ProtoUnmarshaler{}).UnmarshalTraces(b)
	case sigProfiles:
		x, err = (&pprofile.ProtoUnmarshaler{}).UnmarshalProfiles(b)
	default:
		x, err = (&pmetric.ProtoUnmarshaler{}).UnmarshalMetrics(b)
	}
	if err != nil {
		panic(err)
	}
	return x
}

func (p pd) markReadOnly(x any) {
	switch p.sig {
	case sigLogs:
		x.(plog.Logs).MarkReadOnly()
	case sigTraces:
		x.(ptrace.Traces).MarkReadOnly()
	case sigProfiles:
		x.(pprofile.Profiles).MarkReadOnly()
	default:
		x.(pmetric.Metrics).MarkReadOnly()
	}
}

func (p pd) isReadOnly(x any) bool {
	switch p.sig {
	case sigLogs:
		return x.(plog.Logs).IsReadOnly()
	case sigTraces:
		return x.(ptrace.Traces).IsReadOnly()
	case sigProfiles:
		return x.(pprofile.Profiles).IsReadOnly()
	}
	return x.(pmetric.Metrics).IsReadOnly()
}

// overwriteValue changes a value IN PLACE, keeping its type (what a processor that rewrites an attribute does).
func overwriteValue(v pcommon.Value, w string, n int64) {
	switch v.Type() {
	case pcommon.ValueTypeStr:
		v.SetStr(w)
	case pcommon.ValueTypeInt:
		v.SetInt(v.Int() + 1000 + n)
	case pcommon.ValueTypeDouble:
		v.SetDouble(v.Double() + 0.5 + float64(n))
	case pcommon.ValueTypeBool:
		v.SetBool(!v.Bool())
	case pcommon.ValueTypeBytes:
		if b := v.Bytes(); b.Len() > 0 {
			b.SetAt(0, b.At(0)^0xff)
		} else {
			b.Append(byte(n) + 1)
		}
	case pcommon.ValueTypeMap:
		// overwrite what is there, then insert INTO the nested container (the container object itself is kept)
		overwriteMap(v.Map(), w, n)
		v.Map().PutStr("mut.inserted", w)
	case pcommon.ValueTypeSlice:
		for i := 0; i < v.Slice().Len(); i++ {
			overwriteValue(v.Slice().At(i), w, n)
		}
		v.Slice().AppendEmpty().SetStr(w)
	}
}

func overwriteMap(m pcommon.Map, w string, n int64) {
	m.Range(func(_ string, v pcommon.Value) bool {
		overwriteValue(v, w, n)
		return true
	})
}

// mutateInPlace (program 4) overwrites every value it can reach without changing the structure, then leaves the
// witness in a schema URL.
func (p pd) mutateInPlace(x any, w string, n int64) {
	switch p.sig {
	case sigLogs:
		ld := x.(plog.Logs)
		for i := 0; i < ld.ResourceLogs().Len(); i++ {
			rl := ld.ResourceLogs().At(i)
			overwriteMap(rl.Resource().Attributes(), w, n)
			for j := 0; j < rl.ScopeLogs().Len(); j++ {
				sl := rl.ScopeLogs().At(j)
				overwriteMap(sl.Scope().Attributes(), w, n)
				for k := 0; k < sl.LogRecords().Len(); k++ {
					lr := sl.LogRecords().At(k)
					overwriteMap(lr.Attributes(), w, n)
					overwriteValue(lr.Body(), w, n)
					lr.SetTimestamp(lr.Timestamp() + pcommon.Timestamp(1+n))
					lr.SetSeverityNumber(lr.SeverityNumber() + 1)
				}
			}
		}
		if ld.ResourceLogs().Len() > 0 {
			ld.ResourceLogs().At(0).SetSchemaUrl(w)
		} else {
			ld.ResourceLogs().AppendEmpty().SetSchemaUrl(w)
		}
	case sigTraces:
		td := x.(ptrace.Traces)
		for i := 0; i < td.ResourceSpans().Len(); i++ {
			rs := td.ResourceSpans().At(i)
			overwriteMap(rs.Resource().Attributes(), w, n)
			for j := 0; j < rs.ScopeSpans().Len(); j++ {
				ss := rs.ScopeSpans().At(j)
				overwriteMap(ss.Scope().Attributes(), w, n)
				for k := 0; k < ss.Spans().Len(); k++ {
					sp := ss.Spans().At(k)
					overwriteMap(sp.Attributes(), w, n)
					sp.SetStartTimestamp(sp.StartTimestamp() + pcommon.Timestamp(1+n))
					sp.SetKind(sp.Kind() + 1)
					for e := 0; e < sp.Events().Len(); e++ {
						overwriteMap(sp.Events().At(e).Attributes(), w, n)
						sp.Events().At(e).SetName(w)
					}
				}
			}
		}
		if td.ResourceSpans().Len() > 0 {
			td.ResourceSpans().At(0).SetSchemaUrl(w)
		} else {
			td.ResourceSpans().AppendEmpty().SetSchemaUrl(w)
		}
	case sigProfiles:
		pf := x.(pprofile.Profiles)
		for i := 0; i < pf.ResourceProfiles().Len(); i++ {
			rp := pf.ResourceProfiles().At(i)
			overwriteMap(rp.Resource().Attributes(), w, n)
			for j := 0; j < rp.ScopeProfiles().Len(); j++ {
				sp := rp.ScopeProfiles().At(j)
				overwriteMap(sp.Scope().Attributes(), w, n)
				for k := 0; k < sp.Profiles().Len(); k++ {
					pr := sp.Profiles().At(k)
					pr.SetPeriod(pr.Period() + 1 + n)
					for q := 0; q < pr.Sample().Len(); q++ {
						if vs := pr.Sample().At(q).Value(); vs.Len() > 1 {
							vs.SetAt(1, vs.At(1)+1000+n) // (the first value is the item id of the generator)
						}
					}
				}
			}
		}
		if pf.ResourceProfiles().Len() > 0 {
			pf.ResourceProfiles().At(0).SetSchemaUrl(w)
		} else {
			pf.ResourceProfiles().AppendEmpty().SetSchemaUrl(w)
		}
	default:
		md := x.(pmetric.Metrics)
		num := func(dps pmetric.NumberDataPointSlice) {
			for q := 0; q < dps.Len(); q++ {
				dp := dps.At(q)
				overwriteMap(dp.Attributes(), w, n)
				switch dp.ValueType() {
				case pmetric.NumberDataPointValueTypeInt:
					dp.SetIntValue(dp.IntValue() + 1000 + n)
				case pmetric.NumberDataPointValueTypeDouble:
					dp.SetDoubleValue(dp.DoubleValue() + 0.5 + float64(n))
				}
				dp.SetTimestamp(dp.Timestamp() + pcommon.Timestamp(1+n))
			}
		}
		for i := 0; i < md.ResourceMetrics().Len(); i++ {
			rm := md.ResourceMetrics().At(i)
			overwriteMap(rm.Resource().Attributes(), w, n)
			for j := 0; j < rm.ScopeMetrics().Len(); j++ {
				sm := rm.ScopeMetrics().At(j)
				overwriteMap(sm.Scope().Attributes(), w, n)
				for k := 0; k < sm.Metrics().Len(); k++ {
					m := sm.Metrics().At(k)
					overwriteMap(m.Metadata(), w, n)
					switch m.Type() {
					case pmetric.MetricTypeGauge:
						num(m.Gauge().DataPoints())
					case pmetric.MetricTypeSum:
						num(m.Sum().DataPoints())
					case pmetric.MetricTypeHistogram:
						for q := 0; q < m.Histogram().DataPoints().Len(); q++ {
							dp := m.Histogram().DataPoints().At(q)
							overwriteMap(dp.Attributes(), w, n)
							dp.SetCount(dp.Count() + uint64(1+n))
							if bc := dp.BucketCounts(); bc.Len() > 0 {
								bc.SetAt(0, bc.At(0)+uint64(1+n))
							}
						}
					case pmetric.MetricTypeExponentialHistogram:
						for q := 0; q < m.ExponentialHistogram().DataPoints().Len(); q++ {
							dp := m.ExponentialHistogram().DataPoints().At(q)
							overwriteMap(dp.Attributes(), w, n)
							dp.SetCount(dp.Count() + uint64(1+n))
						}
					case pmetric.MetricTypeSummary:
						for q := 0; q < m.Summary().DataPoints().Len(); q++ {
							dp := m.Summary().DataPoints().At(q)
							overwriteMap(dp.Attributes(), w, n)
							dp.SetCount(dp.Count() + uint64(1+n))
						}
					}
				}
			}
		}
		if md.ResourceMetrics().Len() > 0 {
			md.ResourceMetrics().At(0).SetSchemaUrl(w)
		} else {
			md.ResourceMetrics().AppendEmpty().SetSchemaUrl(w)
		}
	}
}

// mutate applies mutation program `kind` leaving the witness string somewhere in the payload.
func (p pd) mutate(x any, witness string, kind int) {
	if kind == 5 {
		var n int64
		_, _ = fmt.Sscanf(witness, "WITNESS-%d", &n)
		for _, rc := range reflectProgram(x, p.rseed+n, witness, 6, nil) {
			if rc.panicked {
				panic("invalid access to shared data (reflective program: " + rc.desc + ")")
			}
		}
		return
	}
	if kind == 4 {
		var n int64
		_, _ = fmt.Sscanf(witness, "WITNESS-%d", &n)
		p.mutateInPlace(x, witness, n)
		return
	}
	switch p.sig {
	case sigLogs:
		ld := x.(plog.Logs)
		switch kind {
		case 0:
			ld.ResourceLogs().AppendEmpty().ScopeLogs().AppendEmpty().LogRecords().AppendEmpty().Body().SetStr(witness)
		case 1:
			if ld.ResourceLogs().Len() > 0 {
				ld.ResourceLogs().At(0).Resource().Attributes().PutStr("mut", witness)
			} else {
				ld.ResourceLogs().AppendEmpty().Resource().Attributes().PutStr("mut", witness)
			}
		case 2:
			ld.ResourceLogs().RemoveIf(func(plog.ResourceLogs) bool { return true })
			ld.ResourceLogs().AppendEmpty().SetSchemaUrl(witness)
		default:
			n := 0
			for i := 0; i < ld.ResourceLogs().Len(); i++ {
				for j := 0; j < ld.ResourceLogs().At(i).ScopeLogs().Len(); j++ {
					lrs := ld.ResourceLogs().At(i).ScopeLogs().At(j).LogRecords()
					for k := 0; k < lrs.Len(); k++ {
						lrs.At(k).Attributes().PutStr("mut", witness)
						n++
					}
				}
			}
			if n == 0 {
				ld.ResourceLogs().AppendEmpty().SetSchemaUrl(witness)
			}
		}
	case sigTraces:
		td := x.(ptrace.Traces)
		switch kind {
		case 0:
			td.ResourceSpans().AppendEmpty().ScopeSpans().AppendEmpty().Spans().AppendEmpty().SetName(witness)
		case 1:
			if td.ResourceSpans().Len() > 0 {
				td.ResourceSpans().At(0).Resource().Attributes().PutStr("mut", witness)
			} else {
				td.ResourceSpans().AppendEmpty().Resource().Attributes().PutStr("mut", witness)
			}
		case 2:
			td.ResourceSpans().RemoveIf(func(ptrace.ResourceSpans) bool { return true })
			td.ResourceSpans().AppendEmpty().SetSchemaUrl(witness)
		default:
			n := 0
			for i := 0; i < td.ResourceSpans().Len(); i++ {
				for j := 0; j < td.ResourceSpans().At(i).ScopeSpans().Len(); j++ {
					sps := td.ResourceSpans().At(i).ScopeSpans().At(j).Spans()
					for k := 0; k < sps.Len(); k++ {
						sps.At(k).Attributes().PutStr("mut", witness)
						n++
					}
				}
			}
			if n == 0 {
				td.ResourceSpans().AppendEmpty().SetSchemaUrl(witness)
			}
		}
	case sigProfiles:
		pf := x.(pprofile.Profiles)
		switch kind {
		case 0:
			pf.ResourceProfiles().AppendEmpty().ScopeProfiles().AppendEmpty().Profiles().AppendEmpty().SetOriginalPayloadFormat(witness)
		case 1:
			if pf.ResourceProfiles().Len() > 0 {
				pf.ResourceProfiles().At(0).Resource().Attributes().PutStr("mut", witness)
			} else {
				pf.ResourceProfiles().AppendEmpty().Resource().Attributes().PutStr("mut", witness)
			}
		case 2:
			pf.ResourceProfiles().RemoveIf(func(pprofile.ResourceProfiles) bool { return true })
			pf.ResourceProfiles().AppendEmpty().SetSchemaUrl(witness)
		default:
			n := 0
			for i := 0; i < pf.ResourceProfiles().Len(); i++ {
				for j := 0; j < pf.ResourceProfiles().At(i).ScopeProfiles().Len(); j++ {
					ps := pf.ResourceProfiles().At(i).ScopeProfiles().At(j).Profiles()
					for k := 0; k < ps.Len(); k++ {
						ps.At(k).SetOriginalPayloadFormat(witness)
						ps.At(k).StringTable().Append(witness)
						n++
					}
				}
			}
			if n == 0 {
				pf.ResourceProfiles().AppendEmpty().SetSchemaUrl(witness)
			}
		}
	default:
		md := x.(pmetric.Metrics)
		switch kind {
		case 0:
			md.ResourceMetrics().AppendEmpty().ScopeMetrics().AppendEmpty().Metrics().AppendEmpty().SetName(witness)
		case 1:
			if md.ResourceMetrics().Len() > 0 {
				md.ResourceMetrics().At(0).Resource().Attributes().PutStr("mut", witness)
			} else {
				md.ResourceMetrics().AppendEmpty().Resource().Attributes().PutStr("mut", witness)
			}
		case 2:
			md.ResourceMetrics().RemoveIf(func(pmetric.ResourceMetrics) bool { return true })
			md.ResourceMetrics().AppendEmpty().SetSchemaUrl(witness)
		default:
			n := 0
			for i := 0; i < md.ResourceMetrics().Len(); i++ {
				for j := 0; j < md.ResourceMetrics().At(i).ScopeMetrics().Len(); j++ {
					ms := md.ResourceMetrics().At(i).ScopeMetrics().At(j).Metrics()
					for k := 0; k < ms.Len(); k++ {
						ms.At(k).SetDescription(witness)
						ms.At(k).Metadata().PutStr("mut", witness)
						n++
					}
				}
			}
			if n == 0 {
				md.ResourceMetrics().AppendEmpty().SetSchemaUrl(witness)
			}
		}
	}
}

var _ = pcommon.NewMap

// requestView wraps the payload in the OTLP export-request type of its signal (as an OTLP-sending stage does) and
// returns a function that later appends through that view. Such a view is one more handle on the same data: once the
// payload has been marked read-only, a mutation through a view taken BEFORE that must panic like any other.
func (p pd) requestView(x any) func() {
	switch p.sig {
	case sigLogs:
		v := plogotlp.NewExportRequestFromLogs(x.(plog.Logs))
		return func() { v.Logs().ResourceLogs().AppendEmpty().Resource().Attributes().PutStr("WITNESS-view", "x") }
	case sigTraces:
		v := ptraceotlp.NewExportRequestFromTraces(x.(ptrace.Traces))
		return func() { v.Traces().ResourceSpans().AppendEmpty().Resource().Attributes().PutStr("WITNESS-view", "x") }
	case sigProfiles:
		v := pprofileotlp.NewExportRequestFromProfiles(x.(pprofile.Profiles))
		return func() {
			v.Profiles().ResourceProfiles().AppendEmpty().Resource().Attributes().PutStr("WITNESS-view", "x")
		}
	}
	v := pmetricotlp.NewExportRequestFromMetrics(x.(pmetric.Metrics))
	return func() {
		v.Metrics().ResourceMetrics().AppendEmpty().Resource().Attributes().PutStr("WITNESS-view", "x")
	}
}

type c06Consumer struct {
	n          int
	mutates    bool // declared capability
	fail       bool
	mutKind    int
	async      bool // the declared mutation happens in a later task, after Consume returned
	undeclared bool // a non-mutating consumer tries to mutate anyway
	cancels    bool // the (failing) consumer ends the request's context from inside its call
	// observations
	calls    int
	held     any
	atCall   []byte
	panicked bool
	err      error
	// the declared mutation itself panicked (reported)
	panickedDeclared bool
}

type c06Cfg struct {
	Signal    string   `json:"signal"`
	ReadOnly  bool     `json:"input_read_only"`
	Consumers []string `json:"consumers"`
}

func runC06(r *simkit.Run) {
	if r.Tape.Weighted(4, 1) == 1 {
		runRouting(r, "C06")
		return
	}
	if r.Tape.Chance(1, 12) {
		runC06Helper(r)
		return
	}
	tp := r.Tape
	p := pd{sig: drawSignal(tp), rseed: int64(tp.Draw(1 << 30))}
	n := tp.Range(1, 5)
	cs := make([]*c06Consumer, n)
	var desc []string
	nRO := 0
	for i := range cs {
		c := &c06Consumer{n: i, mutates: tp.Chance(1, 2), fail: tp.Chance(1, 5), mutKind: tp.Draw(6)}
		if c.mutates {
			c.async = tp.Chance(1, 2)
		} else {
			nRO++
		}
		cs[i] = c
	}
	inputRO := tp.Chance(1, 4)
	for _, c := range cs {
		if !c.mutates && (nRO >= 2 || inputRO) && tp.Chance(1, 4) {
			c.undeclared = true
		}
		d := "ro"
		if c.mutates {
			d = fmt.Sprintf("mut(kind%d", c.mutKind)
			if c.async {
				d += ",async"
			}
			d += ")"
		}
		if c.undeclared {
			d += "+undeclared-mutation"
		}
		if c.fail {
			d += "+fails"
		}
		desc = append(desc, d)
	}
	r.Sample = c06Cfg{Signal: p.sig, ReadOnly: inputRO, Consumers: desc}
	r.Logf("fan-out %s inputRO=%v over %v", p.sig, inputRO, desc)
	ids := &gen.IDs{Prefix: "i"}
	var later []func()
	errOf := func(c *c06Consumer) error { return fmt.Errorf("consumer %d: %w", c.n, errStubConsume) }
	errs := make([]error, n)
	for i, c := range cs {
		errs[i] = errOf(c)
	}
	// the request's context: it may end while the fan-out is under way (a consumer that fails and gives up on the
	// request) or be over already when the payload arrives; every consumer is invoked all the same
	var cancelReq context.CancelFunc = func() {}
	for _, c := range cs {
		if c.fail && tp.Chance(1, 3) {
			c.cancels = true
		}
	}
	handle := func(c *c06Consumer, x any) error {
		c.calls++
		c.held = x
		c.atCall = p.bytes(x)
		w := fmt.Sprintf("WITNESS-%d", c.n)
		// a consumer that declared MutatesData must be able to mutate what it was given, during the call and later
		declared := func() {
			defer func() {
				if e := recover(); e != nil {
					c.panickedDeclared = true
					r.Failf("isolation", "declared-mutator-got-read-only-data", "consumer %d (%s) declares MutatesData but its mutation panicked: %v", c.n, desc[c.n], e)
				}
			}()
			p.mutate(x, w, c.mutKind)
		}
		switch {
		case c.mutates && !c.async:
			declared()
		case c.mutates && c.async:
			later = append(later, declared)
		case c.undeclared && c.mutKind == 5:
			// the reflective sweep on shared read-only data: every mutator call is either stopped by the read-only
			// assertion or changes nothing
			before := p.bytes(x)
			reflectProgram(x, p.rseed+int64(c.n), w, 8, func(rc reflCall) {
				if now := p.bytes(x); !bytes.Equal(now, before) {
					r.Failf("readonly", "mutator-does-not-assert/"+rc.desc, "consumer %d is one of %d non-mutating consumers sharing the payload (input read-only: %v): %s returned normally on read-only data and changed it (%d -> %d bytes)", c.n, nRO, inputRO, rc.desc, len(before), len(now))
					before = now
				}
			})
			c.panicked = true // judged call by call above
			r.Count("probe.reflective_sweep_on_read_only_data")
		case c.undeclared:
			func() {
				defer func() {
					if recover() != nil {
						c.panicked = true
					}
				}()
				p.mutate(x, w, c.mutKind)
			}()
		}
		if c.cancels {
			r.Count("fault.request_context_cancelled_during_fan_out")
			cancelReq()
		}
		if c.fail {
			r.Count("fault.consumer_error")
			return errs[c.n]
		}
		return nil
	}
	var fan anyConsumer
	switch p.sig {
	case sigLogs:
		var l []consumer.Logs
		for _, c := range cs {
			c := c
			x, _ := consumer.NewLogs(func(_ context.Context, ld plog.Logs) error { return handle(c, ld) }, consumer.WithCapabilities(consumer.Capabilities{MutatesData: c.mutates}))
			l = append(l, x)
		}
		fan = anyConsumer{sig: p.sig, l: fanoutconsumer.NewLogs(l)}
	case sigTraces:
		var l []consumer.Traces
		for _, c := range cs {
			c := c
			x, _ := consumer.NewTraces(func(_ context.Context, td ptrace.Traces) error { return handle(c, td) }, consumer.WithCapabilities(consumer.Capabilities{MutatesData: c.mutates}))
			l = append(l, x)
		}
		fan = anyConsumer{sig: p.sig, t: fanoutconsumer.NewTraces(l)}
	case sigProfiles:
		var l []xconsumer.Profiles
		for _, c := range cs {
			c := c
			x, _ := xconsumer.NewProfiles(func(_ context.Context, pf pprofile.Profiles) error { return handle(c, pf) }, consumer.WithCapabilities(consumer.Capabilities{MutatesData: c.mutates}))
			l = append(l, x)
		}
		fan = anyConsumer{sig: p.sig, p: fanoutconsumer.NewProfiles(l)}
	default:
		var l []consumer.Metrics
		for _, c := range cs {
			c := c
			x, _ := consumer.NewMetrics(func(_ context.Context, md pmetric.Metrics) error { return handle(c, md) }, consumer.WithCapabilities(consumer.Capabilities{MutatesData: c.mutates}))
			l = append(l, x)
		}
		fan = anyConsumer{sig: p.sig, m: fanoutconsumer.NewMetrics(l)}
	}
	// capability of the fan-out: it may hand the original to a mutating consumer only if nobody else reads it
	wantCap := nRO == 0
	if fan.caps().MutatesData != wantCap {
		r.Failf("capability", "fanout", "fan-out over %v advertises MutatesData=%v, expected %v", desc, fan.caps().MutatesData, wantCap)
	}
	// One fan-out serves many deliveries: in 1 run in 3 two or three payloads (empty ones among them) go through the
	// same fan-out one after the other; every clause holds for every delivery, whatever earlier deliveries left behind.
	rounds := 1
	if tp.Chance(1, 3) {
		rounds = tp.Range(2, 3)
		r.Count("probe.several_deliveries_through_one_fan_out")
	}
	for round := 0; round < rounds && !r.Failed(); round++ {
		payload := p.gen(tp, ids)
		if tp.Chance(1, 2) {
			gen.Enrich(tp, payload, tp.Chance(1, 4)) // every value kind, ids, events, links, exemplars, ...
		}
		if inputRO {
			p.markReadOnly(payload)
		}
		sent := p.bytes(payload)
		r.Logf("payload %d bytes", len(sent))
		for _, c := range cs {
			c.calls, c.held, c.atCall, c.panicked, c.panickedDeclared, c.err = 0, nil, nil, false, false, nil
		}
		reqCtx, cancelThis := context.WithCancel(context.Background())
		cancelReq = cancelThis
		deadOnEntry := tp.Chance(1, 12)
		var err error
		if deadOnEntry {
			r.Count("fault.request_context_over_on_entry")
			cancelReq()
		}
		// an upstream stage may have wrapped the payload in an export-request view while it was still exclusively its own
		var viaView func()
		if !inputRO && tp.Chance(1, 4) {
			viaView = p.requestView(payload)
		}
		r.Fire("consume", func() { err = fan.consume(reqCtx, payload) })
		if viaView != nil && p.isReadOnly(payload) {
			// the fan-out has shared the payload (marked it read-only): the old view must refuse to change it
			r.Count("probe.mutation_through_a_request_view_taken_before_sharing")
			before := p.bytes(payload)
			panicked := false
			func() {
				defer func() {
					if recover() != nil {
						panicked = true
					}
				}()
				viaView()
			}()
			if !panicked {
				r.Failf("readonly", "view-taken-before-sharing-mutates", "the payload was wrapped in an export-request view before the fan-out shared it among %d non-mutating consumers; a mutation through that view did not panic", nRO)
			}
			if !bytes.Equal(p.bytes(payload), before) {
				r.Failf("readonly", "view-taken-before-sharing-changed-data", "a mutation through an export-request view taken before the payload was shared changed the shared data")
			}
		}
		// later tasks of declared-mutating consumers, in tape order
		for len(later) > 0 {
			k := tp.Draw(len(later))
			f := later[k]
			later = append(later[:k], later[k+1:]...)
			r.Fire(fmt.Sprintf("async-mutation:%d", k), f)
			r.Nontrivial = true
		}
		if n > 1 {
			r.Nontrivial = true
		}
		// ---- oracle
		for _, c := range cs {
			if c.calls != 1 {
				r.Failf("delivery", fmt.Sprintf("called-%d-times", c.calls), "consumer %d (%s) was invoked %d times", c.n, desc[c.n], c.calls)
				continue
			}
			if !bytes.Equal(c.atCall, sent) {
				r.Failf("delivery", "content-differs-at-call", "consumer %d (%s) received content that differs from what was sent (%d vs %d bytes)", c.n, desc[c.n], len(c.atCall), len(sent))
			}
			if c.fail && !errors.Is(err, errs[c.n]) {
				r.Failf("errors", "failure-not-aggregated", "consumer %d failed but the returned error %v does not contain its failure", c.n, err)
			}
		}
		anyFail := false
		for _, c := range cs {
			anyFail = anyFail || c.fail
		}
		if !anyFail && err != nil {
			r.Failf("errors", "spurious", "no consumer failed but the fan-out returned %v", err)
		}
		for _, c := range cs {
			if c.calls != 1 {
				continue
			}
			now := p.bytes(c.held)
			switch {
			case !c.mutates && !c.undeclared:
				if !bytes.Equal(now, c.atCall) {
					r.Failf("isolation", "read-only-consumer-saw-change", "consumer %d does not mutate data, yet its view changed after the siblings finished: now contains %s", c.n, witnessesIn(now))
				}
			case c.undeclared:
				if !c.panicked {
					r.Failf("readonly", "undeclared-mutation-did-not-panic", "consumer %d is one of %d non-mutating consumers sharing the payload (input read-only: %v); its undeclared mutation did not panic", c.n, nRO, inputRO)
				}
				if !bytes.Equal(now, c.atCall) {
					r.Failf("readonly", "undeclared-mutation-changed-data", "the undeclared mutation of consumer %d changed shared data", c.n)
				}
			}
			// a declared mutator works on data no one else can see: what it holds after everybody is done is what its own
			// program makes of the payload that was sent, nothing more
			if c.mutates && !c.panickedDeclared {
				exp := p.unmarshal(sent)
				p.mutate(exp, fmt.Sprintf("WITNESS-%d", c.n), c.mutKind)
				if !bytes.Equal(p.bytes(exp), now) {
					r.Failf("isolation", "mutator-data-not-private", "consumer %d (%s) holds data that differs from what its own mutation makes of the payload sent (%d vs %d bytes): somebody else can reach its copy", c.n, desc[c.n], len(now), len(p.bytes(exp)))
				}
			}
			// nobody else's witness may be reachable from this consumer's data
			for _, o := range cs {
				if o.n != c.n && bytes.Contains(now, []byte(fmt.Sprintf("WITNESS-%d", o.n))) {
					r.Failf("isolation", "witness-leaked", "the mutation made by consumer %d (%s) is visible to consumer %d (%s)", o.n, desc[o.n], c.n, desc[c.n])
				}
			}
		}
		r.State(fmt.Sprintf("%s n=%d ro=%d inputRO=%v", p.sig, n, nRO, inputRO), "consume")
		cancelThis()
	}
}

func witnessesIn(b []byte) string {
	var out []string
	for i := 0; i < 6; i++ {
		w := fmt.Sprintf("WITNESS-%d", i)
		if bytes.Contains(b, []byte(w)) {
			out = append(out, w)
		}
	}
	return strings.Join(out, ",")
}

var HarnessC06 = simkit.Harness{
	Prop: "C06", Name: "svc/c06", Run: runC06, StepTimeout: 20e9, HashInsensitive: true,
	Real: append([]string{"internal/fanoutconsumer (logs, traces, metrics, profiles)", "exporterhelper exporters (in-memory queue, batching none / queue / legacy) for the declared capability of the exporter stage (1 run in 12)", "pdata read-only state and deep copy", "service/internal/capabilityconsumer and the graph's capabilities / fan-out nodes (graph mode)"}, svcReal...),
	Stub: append([]string{"consumers with a declared capability, an injected failure and a mutation program run during the call, as a later task, or undeclared"}, svcStub...),
	Rule: "one run = direct mode: a fan-out over 1-5 simulated consumers with a tape-drawn capability vector, read-only or mutable generated input, per-consumer failure and mutation program (6 kinds: one overwrites every reachable value in place keeping its type, one is a seeded walk over the public pdata API found by reflection calling Set*/Put*/Remove*/Append*/From*/Clear*/Ensure*/Sort* with generated arguments; synchronous, as a later task in tape order, or undeclared by a non-mutating consumer; in 1 run in 3 two or three payloads - empty ones among them - go through the same fan-out one after the other); or graph mode: a generated service topology (as C09) whose mutating processors and mutating exporters really mutate, with delivery trails and each pipeline's advertised capability compared with the configuration; distinct = distinct event-log hash; non-trivial = more than one consumer or an asynchronous mutation / a payload with >1 delivery.",
}
