package verifsim

import (
	"fmt"
	"math/rand"
	"reflect"
	"sort"
	"strings"

	"go.opentelemetry.io/collector/pdata/pcommon"
	"go.opentelemetry.io/collector/pdata/pmetric"
)

// Reflective mutation program (C06, program 5): a seeded walk over the payload's object graph through the PUBLIC pdata
// API found by reflection, calling mutating methods (Set*, Put*, Remove*, Append*, From*, Clear*, Ensure*, Sort*)
// with generated arguments. On a mutable private copy it is one more thing a declared mutator may do; on shared
// read-only data every such call must be stopped by the read-only assertion ("all mutators assert it") or at least
// change nothing. Deterministic for a given (payload, seed): methods are visited in name order, choices come from a
// local PRNG.

const pdataPkg = "go.opentelemetry.io/collector/pdata/"

func isPdataStruct(t reflect.Type) bool {
	return t.Kind() == reflect.Struct && strings.HasPrefix(t.PkgPath(), pdataPkg)
}

var mutatorPrefixes = []string{"Set", "Put", "Remove", "Append", "From", "Clear", "Ensure", "Sort"}

func isMutatorName(n string) bool {
	for _, p := range mutatorPrefixes {
		if strings.HasPrefix(n, p) {
			return true
		}
	}
	return false
}

type rnode struct {
	v    reflect.Value
	path string
}

// safeCall calls f and reports the recovered panic value (nil = returned normally).
func safeCall(f func()) (pv any) {
	defer func() { pv = recover() }()
	f()
	return nil
}

func isReadOnlyPanic(pv any) bool {
	return pv != nil && strings.Contains(fmt.Sprint(pv), "invalid access to shared data")
}

// childrenOf lists the pdata values reachable in one step (bounded fan-out).
func childrenOf(n rnode) []rnode {
	var out []rnode
	add := func(v reflect.Value, p string) {
		if v.IsValid() && isPdataStruct(v.Type()) {
			out = append(out, rnode{v, p})
		}
	}
	switch x := n.v.Interface().(type) {
	case pcommon.Value:
		switch x.Type() {
		case pcommon.ValueTypeMap:
			add(reflect.ValueOf(x.Map()), n.path+".Map()")
		case pcommon.ValueTypeSlice:
			add(reflect.ValueOf(x.Slice()), n.path+".Slice()")
		case pcommon.ValueTypeBytes:
			add(reflect.ValueOf(x.Bytes()), n.path+".Bytes()")
		}
		return out
	case pcommon.Map:
		keys := make([]string, 0, x.Len())
		x.Range(func(k string, _ pcommon.Value) bool { keys = append(keys, k); return true })
		sort.Strings(keys)
		for i, k := range keys {
			if i >= 4 {
				break
			}
			if v, ok := x.Get(k); ok {
				add(reflect.ValueOf(v), fmt.Sprintf("%s.Get(%q)", n.path, k))
			}
		}
		return out
	case pmetric.Metric:
		// only the getter that matches the metric's type (the others hand out a view of nothing)
		switch x.Type() {
		case pmetric.MetricTypeGauge:
			add(reflect.ValueOf(x.Gauge()), n.path+".Gauge()")
		case pmetric.MetricTypeSum:
			add(reflect.ValueOf(x.Sum()), n.path+".Sum()")
		case pmetric.MetricTypeHistogram:
			add(reflect.ValueOf(x.Histogram()), n.path+".Histogram()")
		case pmetric.MetricTypeExponentialHistogram:
			add(reflect.ValueOf(x.ExponentialHistogram()), n.path+".ExponentialHistogram()")
		case pmetric.MetricTypeSummary:
			add(reflect.ValueOf(x.Summary()), n.path+".Summary()")
		}
		add(reflect.ValueOf(x.Metadata()), n.path+".Metadata()")
		return out
	}
	t := n.v.Type()
	length := -1
	if m := n.v.MethodByName("Len"); m.IsValid() && m.Type().NumIn() == 0 && m.Type().NumOut() == 1 && m.Type().Out(0).Kind() == reflect.Int {
		if pv := safeCall(func() { length = int(m.Call(nil)[0].Int()) }); pv != nil {
			length = -1
		}
	}
	for i := 0; i < t.NumMethod(); i++ {
		name := t.Method(i).Name
		m := n.v.Method(i)
		mt := m.Type()
		switch {
		case name == "At" && mt.NumIn() == 1 && mt.In(0).Kind() == reflect.Int && mt.NumOut() == 1 && length > 0:
			for k := 0; k < length && k < 3; k++ {
				k := k
				var res []reflect.Value
				if pv := safeCall(func() { res = m.Call([]reflect.Value{reflect.ValueOf(k)}) }); pv == nil {
					add(res[0], fmt.Sprintf("%s.At(%d)", n.path, k))
				}
			}
		case mt.NumIn() == 0 && mt.NumOut() == 1 && isPdataStruct(mt.Out(0)) && !isMutatorName(name) && !strings.HasPrefix(name, "As") && !strings.HasPrefix(name, "New"):
			var res []reflect.Value
			if pv := safeCall(func() { res = m.Call(nil) }); pv == nil {
				add(res[0], n.path+"."+name+"()")
			}
		}
	}
	return out
}

// argFor builds an argument of type t; ok=false when the type is not one we feed (other pdata values, channels...).
func argFor(t reflect.Type, w string, rng *rand.Rand) (reflect.Value, bool) {
	switch t.Kind() {
	case reflect.String:
		return reflect.ValueOf(w).Convert(t), true
	case reflect.Bool:
		return reflect.ValueOf(true).Convert(t), true
	case reflect.Int, reflect.Int8, reflect.Int16, reflect.Int32, reflect.Int64:
		return reflect.ValueOf(int64(rng.Intn(3))).Convert(t), true
	case reflect.Uint, reflect.Uint8, reflect.Uint16, reflect.Uint32, reflect.Uint64:
		return reflect.ValueOf(uint64(7 + rng.Intn(3))).Convert(t), true
	case reflect.Float32, reflect.Float64:
		return reflect.ValueOf(1.5 + float64(rng.Intn(3))).Convert(t), true
	case reflect.Array:
		if t.Elem().Kind() == reflect.Uint8 {
			a := reflect.New(t).Elem()
			a.Index(0).SetUint(uint64(9 + rng.Intn(3)))
			return a, true
		}
	case reflect.Slice:
		if el, ok := argFor(t.Elem(), w, rng); ok {
			s := reflect.MakeSlice(t, 0, 1)
			return reflect.Append(s, el), true
		}
		if t.Elem().Kind() == reflect.Interface {
			s := reflect.MakeSlice(t, 0, 1)
			return reflect.Append(s, reflect.ValueOf(w)), true
		}
	case reflect.Map:
		if t.Key().Kind() == reflect.String && t.Elem().Kind() == reflect.Interface {
			m := reflect.MakeMap(t)
			m.SetMapIndex(reflect.ValueOf("k").Convert(t.Key()), reflect.ValueOf(w))
			return m, true
		}
	case reflect.Interface:
		if t.NumMethod() == 0 {
			if rng.Intn(2) == 0 {
				return reflect.Zero(t), true // nil: e.g. FromRaw(nil)
			}
			v := reflect.New(t).Elem()
			v.Set(reflect.ValueOf(w))
			return v, true
		}
	case reflect.Func:
		// predicates and comparators: func(...) bool -> constant answer
		if t.NumOut() == 1 && t.Out(0).Kind() == reflect.Bool {
			ans := rng.Intn(2) == 0
			return reflect.MakeFunc(t, func([]reflect.Value) []reflect.Value { return []reflect.Value{reflect.ValueOf(ans)} }), true
		}
	}
	return reflect.Value{}, false
}

type reflCall struct {
	desc     string
	panicked bool // stopped by the read-only assertion
	other    bool // some other panic (index out of range, nil view...): says nothing
}

// reflectProgram performs up to `calls` mutator calls on a seeded walk from root. after is invoked after every call
// that returned normally (the caller compares the payload's bytes).
func reflectProgram(root any, seed int64, w string, calls int, after func(c reflCall)) []reflCall {
	return reflectProgramExcl(root, seed, w, calls, after, nil)
}

// reflectProgramExcl: as reflectProgram, never calling methods whose name contains one of the excluded substrings.
func reflectProgramExcl(root any, seed int64, w string, calls int, after func(c reflCall), exclude []string) []reflCall {
	rng := rand.New(rand.NewSource(seed))
	var done []reflCall
	for c := 0; c < calls; c++ {
		// walk to a node
		n := rnode{reflect.ValueOf(root), "payload"}
		depth := 1 + rng.Intn(9)
		for d := 0; d < depth; d++ {
			var ch []rnode
			if pv := safeCall(func() { ch = childrenOf(n) }); pv != nil || len(ch) == 0 {
				break
			}
			n = ch[rng.Intn(len(ch))]
		}
		// a mutator of that node
		t := n.v.Type()
		var cands []int
		for i := 0; i < t.NumMethod(); i++ {
			if isMutatorName(t.Method(i).Name) {
				skip := false
				for _, x := range exclude {
					if strings.Contains(t.Method(i).Name, x) {
						skip = true
					}
				}
				if !skip {
					cands = append(cands, i)
				}
			}
		}
		if len(cands) == 0 {
			continue
		}
		mi := cands[rng.Intn(len(cands))]
		m := n.v.Method(mi)
		mt := m.Type()
		args := make([]reflect.Value, 0, mt.NumIn())
		ok := true
		for a := 0; a < mt.NumIn(); a++ {
			at := mt.In(a)
			if mt.IsVariadic() && a == mt.NumIn()-1 {
				el, good := argFor(at.Elem(), w, rng)
				if !good {
					ok = false
					break
				}
				args = append(args, el)
				continue
			}
			v, good := argFor(at, w, rng)
			if !good {
				ok = false
				break
			}
			args = append(args, v)
		}
		if !ok {
			continue
		}
		rc := reflCall{desc: fmt.Sprintf("%s.%s", t.String(), t.Method(mi).Name)}
		pv := safeCall(func() { m.Call(args) })
		switch {
		case isReadOnlyPanic(pv):
			rc.panicked = true
		case pv != nil:
			rc.other = true
		}
		done = append(done, rc)
		if pv == nil && after != nil {
			after(rc)
		}
	}
	return done
}
