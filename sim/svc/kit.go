package verifsim

import (
	"context"
	"errors"
	"fmt"
	"sort"
	"strings"
	"sync"

	"go.opentelemetry.io/collector/component"
	"go.opentelemetry.io/collector/component/componentstatus"
	"go.opentelemetry.io/collector/confmap"
	"go.opentelemetry.io/collector/connector"
	"go.opentelemetry.io/collector/connector/forwardconnector"
	"go.opentelemetry.io/collector/connector/xconnector"
	"go.opentelemetry.io/collector/consumer"
	"go.opentelemetry.io/collector/consumer/consumererror"
	"go.opentelemetry.io/collector/consumer/xconsumer"
	"go.opentelemetry.io/collector/exporter"
	"go.opentelemetry.io/collector/exporter/xexporter"
	"go.opentelemetry.io/collector/extension"
	"go.opentelemetry.io/collector/extension/extensioncapabilities"
	"go.opentelemetry.io/collector/featuregate"
	"go.opentelemetry.io/collector/internal/sharedcomponent"
	"go.opentelemetry.io/collector/pdata/pcommon"
	"go.opentelemetry.io/collector/pdata/plog"
	"go.opentelemetry.io/collector/pdata/pmetric"
	"go.opentelemetry.io/collector/pdata/pprofile"
	"go.opentelemetry.io/collector/pdata/ptrace"
	"go.opentelemetry.io/collector/pipeline"
	"go.opentelemetry.io/collector/pipeline/xpipeline"
	"go.opentelemetry.io/collector/processor"
	"go.opentelemetry.io/collector/processor/xprocessor"
	"go.opentelemetry.io/collector/receiver"
	"go.opentelemetry.io/collector/receiver/xreceiver"
	"go.opentelemetry.io/collector/service/internal/graph"
	"verif.local/simkit"
)

// The stub component kit: instrumented receivers, processors, exporters, connectors and extensions whose
// factories are handed to the real service / collector. Every create / start / shutdown / consume is appended to
// one global event log; behaviour (fail, park, mutate) comes from a per-component plan owned by the simulation.

const (
	sigLogs     = "logs"
	sigTraces   = "traces"
	sigMetrics  = "metrics"
	sigProfiles = "profiles"
)

var signals = []string{sigLogs, sigTraces, sigMetrics}

// allSignals adds the profiles signal (behind the service.profilesSupport gate, which the kit enables): used by the
// generated topologies and the fan-out harness; the harnesses of components without profiles support keep `signals`.
var allSignals = []string{sigLogs, sigTraces, sigMetrics, sigProfiles}

func init() {
	if err := featuregate.GlobalRegistry().Set("service.profilesSupport", true); err != nil {
		panic(err)
	}
}

func drawSignal(tp *simkit.Tape) string { return allSignals[tp.Weighted(3, 3, 3, 2)] }

func pipeSignal(s string) pipeline.Signal {
	switch s {
	case sigLogs:
		return pipeline.SignalLogs
	case sigTraces:
		return pipeline.SignalTraces
	case sigProfiles:
		return xpipeline.SignalProfiles
	}
	return pipeline.SignalMetrics
}

type Ev struct {
	Seq  int
	Kind string // create | start | start-fail | started | shutdown | shutdown-fail | stopped | consume | deliver
	Comp string // component key
	Gen  int    // configuration generation the component belongs to
	Info string
}

func (e Ev) String() string {
	s := fmt.Sprintf("%s %s", e.Kind, e.Comp)
	if e.Gen > 0 {
		s += fmt.Sprintf(" gen=%d", e.Gen)
	}
	if e.Info != "" {
		s += " " + e.Info
	}
	return s
}

type compPlan struct {
	FailStart    bool
	FailShutdown bool
	ParkStart    bool // Start parks on the world's gate until released
	ParkShutdown bool
	Mutates      bool // declares MutatesData and tags the payload
	FailConsume  bool
	// status reports issued from inside Start (C11)
	StartReports []componentstatus.Status
	// status reports issued from inside Shutdown (C11): the service has reported Stopping for the instance by then
	ShutdownReports []componentstatus.Status
	// watcher extension hooks that fail (C10). The property speaks of components' Start and Shutdown, not of these hooks:
	// whether the service passes such an error on is not judged, only that everything is still started at most once and
	// shut down exactly once, in order
	FailNotifyConfig, FailReady, FailNotReady bool
}

type delivery struct {
	Comp  string
	ID    string
	Trail string
}

type World struct {
	r  *simkit.Run
	mu sync.Mutex
	// Gen is stamped on components created from now on (C20 bumps it for every configuration it serves).
	Gen        int
	log        []Ev
	plans      map[string]*compPlan
	creates    map[string]int
	deliveries []delivery
	gate       *simkit.Gate
	recvs      map[string]*stubReceiver // key
	hosts      map[string]component.Host
	// shutdownReported: instance key -> statuses its component reported from inside Shutdown (C11)
	shutdownReported map[string][]componentstatus.Status
	shared           *sharedcomponent.Map[component.ID, *stubShared]
	statusLog        []string
	onConsume        func(comp string, sig string, payload any) // optional tap (C06 graph mode)
	comps            map[string]*stubBase
	onStatus         func(instKey string, st componentstatus.Status)
	failStartAt      map[int]string
}

func NewWorld(r *simkit.Run) *World {
	return &World{r: r, Gen: 1, plans: map[string]*compPlan{}, creates: map[string]int{}, gate: simkit.NewGate(), recvs: map[string]*stubReceiver{},
		failStartAt: map[int]string{}, hosts: map[string]component.Host{}, shared: sharedcomponent.NewMap[component.ID, *stubShared](), comps: map[string]*stubBase{}}
}

// failStartAt: generation -> component key whose Start fails in that generation only (C20)
func (w *World) failsAt(gen int, key string) bool {
	w.mu.Lock()
	defer w.mu.Unlock()
	return w.failStartAt[gen] == key && key != ""
}

func (w *World) plan(key string) *compPlan {
	w.mu.Lock()
	defer w.mu.Unlock()
	p, ok := w.plans[key]
	if !ok {
		p = &compPlan{}
		w.plans[key] = p
	}
	return p
}

func (w *World) emit(kind, comp string, gen int, info string) {
	w.mu.Lock()
	w.log = append(w.log, Ev{Seq: len(w.log), Kind: kind, Comp: comp, Gen: gen, Info: info})
	w.mu.Unlock()
}

func (w *World) Log() []Ev {
	w.mu.Lock()
	defer w.mu.Unlock()
	return append([]Ev(nil), w.log...)
}

func (w *World) Deliveries() []delivery {
	w.mu.Lock()
	defer w.mu.Unlock()
	return append([]delivery(nil), w.deliveries...)
}

var errStubStart = errors.New("stub: start failed")
var errStubShutdown = errors.New("stub: shutdown failed")

// stubErrFlavour (drawn per run by genTopo): what else a failing stub's error wraps - nothing; a deadline error of
// the component's own (an internal bounded flush that ran out of time); a cancellation of its own; a permanent
// consumer error. What kind of error a component fails with must not change how the service treats the others.
var stubErrFlavour int

func flavoured(err error) error {
	switch stubErrFlavour {
	case 1:
		return fmt.Errorf("%w: internal flush: %w", err, context.DeadlineExceeded)
	case 2:
		return fmt.Errorf("%w: internal worker: %w", err, context.Canceled)
	case 3:
		return consumererror.NewPermanent(err)
	}
	return err
}

var errStubConsume = errors.New("stub: consume failed")

// stubBase implements Start/Shutdown with logging, failing and parking.
type stubBase struct {
	w                 *World
	key               string // key known at creation
	rkey              string // key resolved at Start from the instance id the graph hands over (adds the pipeline of a processor)
	gen               int
	host              component.Host
	live              bool
	nStart, nShutdown int
}

func (b *stubBase) k() string {
	if b.rkey != "" {
		return b.rkey
	}
	return b.key
}

func (w *World) newBase(key string) *stubBase {
	w.mu.Lock()
	w.creates[key]++
	gen := w.Gen
	b := &stubBase{w: w, key: key, gen: gen}
	w.comps[fmt.Sprintf("%s#%d", key, gen)] = b
	w.mu.Unlock()
	w.emit("create", key, gen, "")
	return b
}

func (b *stubBase) Start(_ context.Context, host component.Host) error {
	if hw, ok := host.(*graph.HostWrapper); ok && hw.InstanceID != nil && strings.HasPrefix(b.key, "processor:") {
		var ps []string
		hw.InstanceID.AllPipelineIDs(func(p pipeline.ID) bool { ps = append(ps, p.String()); return true })
		sort.Strings(ps)
		b.rkey = "processor:" + hw.InstanceID.ComponentID().String() + "@" + strings.Join(ps, ",")
	}
	p := b.w.plan(b.k())
	b.host = host
	b.nStart++
	b.w.mu.Lock()
	b.w.hosts[b.k()] = host
	b.w.mu.Unlock()
	b.w.emit("start", b.k(), b.gen, "")
	for _, st := range p.StartReports {
		componentstatus.ReportStatus(host, componentstatus.NewEvent(st))
	}
	if p.ParkStart {
		b.w.gate.Park("start:" + b.k())
	}
	if p.FailStart || b.w.failsAt(b.gen, b.k()) {
		b.w.emit("start-fail", b.k(), b.gen, "")
		return flavoured(fmt.Errorf("%s: %w", b.k(), errStubStart))
	}
	b.live = true
	b.w.emit("started", b.k(), b.gen, "")
	return nil
}

func (b *stubBase) Shutdown(ctx context.Context) error {
	p := b.w.plan(b.k())
	b.nShutdown++
	b.w.emit("shutdown", b.k(), b.gen, "")
	if p.ParkShutdown {
		b.w.gate.Park("shutdown:" + b.k())
	}
	for _, st := range p.ShutdownReports {
		if b.host != nil {
			componentstatus.ReportStatus(b.host, componentstatus.NewEvent(st))
			if hw, ok := b.host.(*graph.HostWrapper); ok && hw.InstanceID != nil {
				b.w.mu.Lock()
				if b.w.shutdownReported == nil {
					b.w.shutdownReported = map[string][]componentstatus.Status{}
				}
				b.w.shutdownReported[instKey(hw.InstanceID)] = append(b.w.shutdownReported[instKey(hw.InstanceID)], st)
				b.w.mu.Unlock()
			}
		}
	}
	b.live = false
	if p.FailShutdown {
		b.w.emit("shutdown-fail", b.k(), b.gen, "")
		if ctx.Err() != nil {
			// the drain was cut short by the caller's context: the failure carries that context's error
			return fmt.Errorf("%s: %w: %w", b.k(), errStubShutdown, ctx.Err())
		}
		return flavoured(fmt.Errorf("%s: %w", b.k(), errStubShutdown))
	}
	b.w.emit("stopped", b.k(), b.gen, "")
	return nil
}

type stubCfg struct{}

// ---- payload helpers: one representation (id + trail attributes on every item) for three signals --------------

func forEachItem(sig string, payload any, fn func(attrs pcommon.Map)) {
	switch sig {
	case sigLogs:
		ld := payload.(plog.Logs)
		for i := 0; i < ld.ResourceLogs().Len(); i++ {
			rl := ld.ResourceLogs().At(i)
			for j := 0; j < rl.ScopeLogs().Len(); j++ {
				sl := rl.ScopeLogs().At(j)
				for k := 0; k < sl.LogRecords().Len(); k++ {
					fn(sl.LogRecords().At(k).Attributes())
				}
			}
		}
	case sigTraces:
		td := payload.(ptrace.Traces)
		for i := 0; i < td.ResourceSpans().Len(); i++ {
			rs := td.ResourceSpans().At(i)
			for j := 0; j < rs.ScopeSpans().Len(); j++ {
				ss := rs.ScopeSpans().At(j)
				for k := 0; k < ss.Spans().Len(); k++ {
					fn(ss.Spans().At(k).Attributes())
				}
			}
		}
	case sigProfiles:
		// profiles carry their attributes through a dictionary; the kit's items are whole resources (one profile with
		// one sample each), identified by resource attributes
		pf := payload.(pprofile.Profiles)
		for i := 0; i < pf.ResourceProfiles().Len(); i++ {
			fn(pf.ResourceProfiles().At(i).Resource().Attributes())
		}
	default:
		md := payload.(pmetric.Metrics)
		for i := 0; i < md.ResourceMetrics().Len(); i++ {
			rm := md.ResourceMetrics().At(i)
			for j := 0; j < rm.ScopeMetrics().Len(); j++ {
				sm := rm.ScopeMetrics().At(j)
				for k := 0; k < sm.Metrics().Len(); k++ {
					m := sm.Metrics().At(k)
					if m.Type() == pmetric.MetricTypeGauge {
						for p := 0; p < m.Gauge().DataPoints().Len(); p++ {
							fn(m.Gauge().DataPoints().At(p).Attributes())
						}
					}
				}
			}
		}
	}
}

type item struct{ ID, Trail string }

func itemsOf(sig string, payload any) []item {
	var out []item
	forEachItem(sig, payload, func(a pcommon.Map) {
		it := item{}
		if v, ok := a.Get("vid"); ok {
			it.ID = v.Str()
		}
		if v, ok := a.Get("trail"); ok {
			it.Trail = v.Str()
		}
		out = append(out, it)
	})
	return out
}

func newPayload(sig string, items []item) any {
	switch sig {
	case sigLogs:
		ld := plog.NewLogs()
		sl := ld.ResourceLogs().AppendEmpty().ScopeLogs().AppendEmpty()
		for _, it := range items {
			a := sl.LogRecords().AppendEmpty().Attributes()
			a.PutStr("vid", it.ID)
			a.PutStr("trail", it.Trail)
		}
		return ld
	case sigTraces:
		td := ptrace.NewTraces()
		ss := td.ResourceSpans().AppendEmpty().ScopeSpans().AppendEmpty()
		for _, it := range items {
			a := ss.Spans().AppendEmpty().Attributes()
			a.PutStr("vid", it.ID)
			a.PutStr("trail", it.Trail)
		}
		return td
	case sigProfiles:
		pf := pprofile.NewProfiles()
		for _, it := range items {
			rp := pf.ResourceProfiles().AppendEmpty()
			rp.Resource().Attributes().PutStr("vid", it.ID)
			rp.Resource().Attributes().PutStr("trail", it.Trail)
			rp.ScopeProfiles().AppendEmpty().Profiles().AppendEmpty().Sample().AppendEmpty()
		}
		return pf
	default:
		md := pmetric.NewMetrics()
		g := md.ResourceMetrics().AppendEmpty().ScopeMetrics().AppendEmpty().Metrics().AppendEmpty()
		g.SetName("m")
		dps := g.SetEmptyGauge().DataPoints()
		for _, it := range items {
			a := dps.AppendEmpty().Attributes()
			a.PutStr("vid", it.ID)
			a.PutStr("trail", it.Trail)
		}
		return md
	}
}

func tagTrail(sig string, payload any, tag string) {
	forEachItem(sig, payload, func(a pcommon.Map) {
		old := ""
		if v, ok := a.Get("trail"); ok {
			old = v.Str()
		}
		a.PutStr("trail", old+">"+tag)
	})
}

// anyConsumer adapts the three consumer interfaces.
type anyConsumer struct {
	sig string
	l   consumer.Logs
	t   consumer.Traces
	m   consumer.Metrics
	p   xconsumer.Profiles
}

func (c anyConsumer) consume(ctx context.Context, payload any) error {
	switch c.sig {
	case sigLogs:
		return c.l.ConsumeLogs(ctx, payload.(plog.Logs))
	case sigTraces:
		return c.t.ConsumeTraces(ctx, payload.(ptrace.Traces))
	case sigProfiles:
		return c.p.ConsumeProfiles(ctx, payload.(pprofile.Profiles))
	}
	return c.m.ConsumeMetrics(ctx, payload.(pmetric.Metrics))
}

func (c anyConsumer) caps() consumer.Capabilities {
	switch c.sig {
	case sigLogs:
		return c.l.Capabilities()
	case sigTraces:
		return c.t.Capabilities()
	case sigProfiles:
		return c.p.Capabilities()
	}
	return c.m.Capabilities()
}

// ---- receivers ----------------------------------------------------------------------------------------------

type stubReceiver struct {
	*stubBase
	next anyConsumer
}

func (w *World) Receiver(id, sig string) *stubReceiver {
	w.mu.Lock()
	defer w.mu.Unlock()
	return w.recvs["receiver:"+id+":"+sig]
}

// stubShared is the single underlying component of a receiver type that serves all signals through one instance
// (the pattern of the OTLP receiver), wrapped by sharedcomponent.
type stubShared struct {
	*stubBase
	nexts map[string]anyConsumer
}

func (w *World) receiverFactories() map[component.Type]receiver.Factory {
	mk := func(typ string, shared bool) receiver.Factory {
		t := component.MustNewType(typ)
		return xreceiver.NewFactory(t, func() component.Config { return &stubCfg{} },
			xreceiver.WithProfiles(func(_ context.Context, set receiver.Settings, _ component.Config, next xconsumer.Profiles) (xreceiver.Profiles, error) {
				return w.newReceiver(set, sigProfiles, anyConsumer{sig: sigProfiles, p: next}, shared)
			}, component.StabilityLevelStable),
			xreceiver.WithLogs(func(_ context.Context, set receiver.Settings, _ component.Config, next consumer.Logs) (receiver.Logs, error) {
				return w.newReceiver(set, sigLogs, anyConsumer{sig: sigLogs, l: next}, shared)
			}, component.StabilityLevelStable),
			xreceiver.WithTraces(func(_ context.Context, set receiver.Settings, _ component.Config, next consumer.Traces) (receiver.Traces, error) {
				return w.newReceiver(set, sigTraces, anyConsumer{sig: sigTraces, t: next}, shared)
			}, component.StabilityLevelStable),
			xreceiver.WithMetrics(func(_ context.Context, set receiver.Settings, _ component.Config, next consumer.Metrics) (receiver.Metrics, error) {
				return w.newReceiver(set, sigMetrics, anyConsumer{sig: sigMetrics, m: next}, shared)
			}, component.StabilityLevelStable),
		)
	}
	return map[component.Type]receiver.Factory{
		component.MustNewType("rcv"): mk("rcv", false),
		component.MustNewType("shr"): mk("shr", true),
	}
}

func (w *World) newReceiver(set receiver.Settings, sig string, next anyConsumer, shared bool) (component.Component, error) {
	if shared {
		sc, err := w.shared.LoadOrStore(set.ID, func() (*stubShared, error) {
			return &stubShared{stubBase: w.newBase("receiver:" + set.ID.String() + ":*"), nexts: map[string]anyConsumer{}}, nil
		})
		if err != nil {
			return nil, err
		}
		sc.Unwrap().nexts[sig] = next
		key := "receiver:" + set.ID.String() + ":" + sig
		w.mu.Lock()
		w.creates[key]++
		w.recvs[key] = &stubReceiver{stubBase: sc.Unwrap().stubBase, next: next}
		w.mu.Unlock()
		return sc, nil
	}
	key := "receiver:" + set.ID.String() + ":" + sig
	r := &stubReceiver{stubBase: w.newBase(key), next: next}
	w.mu.Lock()
	w.recvs[key] = r
	w.mu.Unlock()
	return r, nil
}

// ---- processors ---------------------------------------------------------------------------------------------

type stubProcessor struct {
	*stubBase
	next    anyConsumer
	mutates bool
	tag     string
}

func (p *stubProcessor) Capabilities() consumer.Capabilities {
	return consumer.Capabilities{MutatesData: p.mutates}
}

func (p *stubProcessor) do(ctx context.Context, payload any) error {
	pl := p.w.plan(p.key)
	p.w.emit("consume", p.k(), p.gen, "")
	if p.w.onConsume != nil {
		p.w.onConsume(p.key, p.next.sig, payload)
	}
	if pl.FailConsume {
		return errStubConsume
	}
	if p.mutates {
		// a component that declares MutatesData must be able to change what it is given
		if pv := safeCall(func() { tagTrail(p.next.sig, payload, p.tag) }); pv != nil {
			p.w.r.Failf("isolation", "mutating-component-got-read-only-data", "%s declares MutatesData but changing the payload it was handed panicked: %v", p.k(), pv)
			return errStubConsume
		}
	}
	return p.next.consume(ctx, payload)
}
func (p *stubProcessor) ConsumeLogs(ctx context.Context, ld plog.Logs) error { return p.do(ctx, ld) }
func (p *stubProcessor) ConsumeTraces(ctx context.Context, td ptrace.Traces) error {
	return p.do(ctx, td)
}
func (p *stubProcessor) ConsumeMetrics(ctx context.Context, md pmetric.Metrics) error {
	return p.do(ctx, md)
}
func (p *stubProcessor) ConsumeProfiles(ctx context.Context, pf pprofile.Profiles) error {
	return p.do(ctx, pf)
}

func (w *World) processorFactories() map[component.Type]processor.Factory {
	mk := func(typ string, mutates bool) processor.Factory {
		newP := func(set processor.Settings, next anyConsumer) *stubProcessor {
			// the pipeline the instance belongs to is not in the settings; the world learns it from the create order
			key := fmt.Sprintf("processor:%s:%s#%d", set.ID.String(), next.sig, w.nextProcOrdinal(set.ID.String(), next.sig))
			return &stubProcessor{stubBase: w.newBase(key), next: next, mutates: mutates, tag: set.ID.String()}
		}
		return xprocessor.NewFactory(component.MustNewType(typ), func() component.Config { return &stubCfg{} },
			xprocessor.WithProfiles(func(_ context.Context, set processor.Settings, _ component.Config, next xconsumer.Profiles) (xprocessor.Profiles, error) {
				return newP(set, anyConsumer{sig: sigProfiles, p: next}), nil
			}, component.StabilityLevelStable),
			xprocessor.WithLogs(func(_ context.Context, set processor.Settings, _ component.Config, next consumer.Logs) (processor.Logs, error) {
				return newP(set, anyConsumer{sig: sigLogs, l: next}), nil
			}, component.StabilityLevelStable),
			xprocessor.WithTraces(func(_ context.Context, set processor.Settings, _ component.Config, next consumer.Traces) (processor.Traces, error) {
				return newP(set, anyConsumer{sig: sigTraces, t: next}), nil
			}, component.StabilityLevelStable),
			xprocessor.WithMetrics(func(_ context.Context, set processor.Settings, _ component.Config, next consumer.Metrics) (processor.Metrics, error) {
				return newP(set, anyConsumer{sig: sigMetrics, m: next}), nil
			}, component.StabilityLevelStable),
		)
	}
	return map[component.Type]processor.Factory{
		component.MustNewType("proc"): mk("proc", true),
		component.MustNewType("ropr"): mk("ropr", false),
	}
}

func (w *World) nextProcOrdinal(id, sig string) int {
	w.mu.Lock()
	defer w.mu.Unlock()
	k := "procord:" + id + ":" + sig
	w.creates[k]++
	return w.creates[k]
}

// ---- exporters ----------------------------------------------------------------------------------------------

type stubExporter struct {
	*stubBase
	sig     string
	mutates bool
}

func (e *stubExporter) Capabilities() consumer.Capabilities {
	return consumer.Capabilities{MutatesData: e.mutates}
}

func (e *stubExporter) do(_ context.Context, payload any) error {
	pl := e.w.plan(e.key)
	e.w.emit("consume", e.key, e.gen, "")
	if e.w.onConsume != nil {
		e.w.onConsume(e.key, e.sig, payload)
	}
	e.w.mu.Lock()
	for _, it := range itemsOf(e.sig, payload) {
		e.w.deliveries = append(e.w.deliveries, delivery{Comp: e.key, ID: it.ID, Trail: it.Trail})
	}
	e.w.mu.Unlock()
	if e.mutates {
		// a mutating exporter really mutates what it was given: any sibling that shares the object will see the tag
		if pv := safeCall(func() { tagTrail(e.sig, payload, "MUTATED-BY:"+e.key) }); pv != nil {
			e.w.r.Failf("isolation", "mutating-component-got-read-only-data", "%s declares MutatesData but changing the payload it was handed panicked: %v", e.key, pv)
		}
	}
	if pl.FailConsume {
		return errStubConsume
	}
	return nil
}
func (e *stubExporter) ConsumeLogs(ctx context.Context, ld plog.Logs) error { return e.do(ctx, ld) }
func (e *stubExporter) ConsumeTraces(ctx context.Context, td ptrace.Traces) error {
	return e.do(ctx, td)
}
func (e *stubExporter) ConsumeMetrics(ctx context.Context, md pmetric.Metrics) error {
	return e.do(ctx, md)
}
func (e *stubExporter) ConsumeProfiles(ctx context.Context, pf pprofile.Profiles) error {
	return e.do(ctx, pf)
}

func (w *World) exporterFactories() map[component.Type]exporter.Factory {
	mk := func(typ string, mutates bool) exporter.Factory {
		newE := func(set exporter.Settings, sig string) *stubExporter {
			return &stubExporter{stubBase: w.newBase("exporter:" + set.ID.String() + ":" + sig), sig: sig, mutates: mutates}
		}
		return xexporter.NewFactory(component.MustNewType(typ), func() component.Config { return &stubCfg{} },
			xexporter.WithProfiles(func(_ context.Context, set exporter.Settings, _ component.Config) (xexporter.Profiles, error) {
				return newE(set, sigProfiles), nil
			}, component.StabilityLevelStable),
			xexporter.WithLogs(func(_ context.Context, set exporter.Settings, _ component.Config) (exporter.Logs, error) {
				return newE(set, sigLogs), nil
			}, component.StabilityLevelStable),
			xexporter.WithTraces(func(_ context.Context, set exporter.Settings, _ component.Config) (exporter.Traces, error) {
				return newE(set, sigTraces), nil
			}, component.StabilityLevelStable),
			xexporter.WithMetrics(func(_ context.Context, set exporter.Settings, _ component.Config) (exporter.Metrics, error) {
				return newE(set, sigMetrics), nil
			}, component.StabilityLevelStable),
		)
	}
	return map[component.Type]exporter.Factory{
		component.MustNewType("exp"):  mk("exp", false),
		component.MustNewType("mexp"): mk("mexp", true),
	}
}

// ---- connectors ---------------------------------------------------------------------------------------------

type stubConnector struct {
	*stubBase
	from, to string
	next     anyConsumer
	tag      string
	routing  bool // type "rt": selects destinations through the router API
}

// route: the routing connector works on its own copy (it does not declare MutatesData), tags it, and sends it to the
// groups of routeSelection one after the other. The first group gets the copy itself; a later group gets the same
// object only if it has so far gone to non-mutating consumers only and one of their fan-outs has marked it read-only
// (shared, immutable); a fresh copy otherwise.
func (c *stubConnector) route(ctx context.Context, payload any) error {
	p := pd{sig: c.from}
	work := p.unmarshal(p.bytes(payload))
	tagTrail(c.from, work, c.tag+"["+c.from+"->"+c.to+"]")
	pristine := p.bytes(work)
	var ids []pipeline.ID
	var get func(...pipeline.ID) (anyConsumer, error)
	switch c.to {
	case sigLogs:
		rt, ok := c.next.l.(connector.LogsRouterAndConsumer)
		if !ok {
			return c.next.consume(ctx, work)
		}
		ids = rt.PipelineIDs()
		get = func(x ...pipeline.ID) (anyConsumer, error) {
			n, err := rt.Consumer(x...)
			return anyConsumer{sig: sigLogs, l: n}, err
		}
	case sigTraces:
		rt, ok := c.next.t.(connector.TracesRouterAndConsumer)
		if !ok {
			return c.next.consume(ctx, work)
		}
		ids = rt.PipelineIDs()
		get = func(x ...pipeline.ID) (anyConsumer, error) {
			n, err := rt.Consumer(x...)
			return anyConsumer{sig: sigTraces, t: n}, err
		}
	case sigProfiles:
		rt, ok := c.next.p.(xconnector.ProfilesRouterAndConsumer)
		if !ok {
			return c.next.consume(ctx, work)
		}
		ids = rt.PipelineIDs()
		get = func(x ...pipeline.ID) (anyConsumer, error) {
			n, err := rt.Consumer(x...)
			return anyConsumer{sig: sigProfiles, p: n}, err
		}
	default:
		rt, ok := c.next.m.(connector.MetricsRouterAndConsumer)
		if !ok {
			return c.next.consume(ctx, work)
		}
		ids = rt.PipelineIDs()
		get = func(x ...pipeline.ID) (anyConsumer, error) {
			n, err := rt.Consumer(x...)
			return anyConsumer{sig: sigMetrics, m: n}, err
		}
	}
	sort.Slice(ids, func(i, j int) bool { return ids[i].String() < ids[j].String() })
	var errs error
	untouched := true // nobody entitled to change `work` has had it so far
	payloadID := ""
	if its := itemsOf(c.from, work); len(its) > 0 {
		payloadID = its[0].ID
	}
	for gi, grp := range routeSelection(rtEffective(rtMode, payloadID), len(ids)) {
		sel := make([]pipeline.ID, len(grp))
		for i, k := range grp {
			sel[i] = ids[k]
		}
		next, err := get(sel...)
		if err != nil {
			return fmt.Errorf("routing connector %s: %w", c.tag, err)
		}
		obj := work
		if gi > 0 && !(untouched && p.isReadOnly(work)) {
			obj = p.unmarshal(pristine)
		}
		if obj == work && next.caps().MutatesData {
			untouched = false
		}
		errs = errors.Join(errs, next.consume(ctx, obj))
	}
	return errs
}

func (c *stubConnector) Capabilities() consumer.Capabilities {
	return consumer.Capabilities{MutatesData: false}
}

func (c *stubConnector) do(ctx context.Context, payload any) error {
	pl := c.w.plan(c.key)
	c.w.emit("consume", c.key, c.gen, "")
	if c.w.onConsume != nil {
		c.w.onConsume(c.key, c.from, payload)
	}
	if pl.FailConsume {
		return errStubConsume
	}
	if c.routing {
		return c.route(ctx, payload)
	}
	// always build a new payload for the next pipeline (the connector does not mutate its input)
	items := itemsOf(c.from, payload)
	for i := range items {
		items[i].Trail += ">" + c.tag + "[" + c.from + "->" + c.to + "]"
	}
	return c.next.consume(ctx, newPayload(c.to, items))
}
func (c *stubConnector) ConsumeLogs(ctx context.Context, ld plog.Logs) error { return c.do(ctx, ld) }
func (c *stubConnector) ConsumeTraces(ctx context.Context, td ptrace.Traces) error {
	return c.do(ctx, td)
}
func (c *stubConnector) ConsumeMetrics(ctx context.Context, md pmetric.Metrics) error {
	return c.do(ctx, md)
}
func (c *stubConnector) ConsumeProfiles(ctx context.Context, pf pprofile.Profiles) error {
	return c.do(ctx, pf)
}

// rndMatrix is the support matrix of connector type "rnd" in the current run.
var rndMatrix [4][4]bool

// rtMode is how connector type "rt" selects destinations in the current run (see routeSelection).
var rtMode int

// rtEffective: in mode 7 the selection depends on the payload (its ordinal, taken from the item id "d<n>"): successive
// payloads through one routing connector ask its router for different selections.
func rtEffective(mode int, id string) int {
	if mode < 7 {
		return mode
	}
	n := 0
	for _, ch := range id {
		if ch >= '0' && ch <= '9' {
			n = n*10 + int(ch-'0')
		}
	}
	return []int{5, 4, 8, 0, 6, 3, 9, 1, 2}[n%9]
}

// routeSelection: the groups of pipelines (by position in the sorted list of n attached pipelines) the routing
// connector sends to, one router.Consumer(...) call per group, in order.
func routeSelection(mode, n int) [][]int {
	all := make([]int, n)
	for i := range all {
		all[i] = i
	}
	switch {
	case mode == 1:
		return [][]int{{0}}
	case mode == 2:
		return [][]int{{0, 0}}
	case mode == 3 && n >= 2:
		return [][]int{all[1:]}
	case mode == 4:
		var out [][]int
		for _, i := range all {
			out = append(out, []int{i})
		}
		return out
	case mode == 5 && n >= 2:
		out := [][]int{{0, 1}}
		for _, i := range all[2:] {
			out = append(out, []int{i})
		}
		return out
	case mode == 8 && n >= 3:
		// first and last together (not neighbours in the sorted list), then the ones in between singly
		out := [][]int{{0, n - 1}}
		for _, i := range all[1 : n-1] {
			out = append(out, []int{i})
		}
		return out
	case mode == 9 && n >= 2:
		// everything, named in descending order
		rev := make([]int, n)
		for i := range rev {
			rev[i] = n - 1 - i
		}
		return [][]int{rev}
	case mode == 6 && n >= 3:
		// the larger group last: singles first, then everything else together
		return [][]int{{n - 1}, all[:n-1]}
	}
	return [][]int{all}
}

// connSupports says which (from,to) pairs a connector type implements.
func connSupports(typ, from, to string) bool {
	switch typ {
	case "fwd":
		return from == to
	case "forward":
		// the real forward connector has no profiles support
		return from == to && from != sigProfiles
	case "conv":
		return true
	case "l2m":
		return from == sigLogs && to == sigMetrics
	case "rt":
		// the routing connector: same signal only, it picks the pipelines it sends to through the router API
		return from == to
	case "rnd":
		// a support matrix drawn per run (set by genTopo before any factory is built)
		idx := map[string]int{sigLogs: 0, sigTraces: 1, sigMetrics: 2, sigProfiles: 3}
		return rndMatrix[idx[from]][idx[to]]
	case "asym":
		// an asymmetric matrix over several pairs: only "upwards" in the order logs < traces < metrics < profiles,
		// plus logs -> logs
		idx := map[string]int{sigLogs: 0, sigTraces: 1, sigMetrics: 2, sigProfiles: 3}
		return idx[from] < idx[to] || (from == sigLogs && to == sigLogs)
	}
	return false
}

func (w *World) connectorFactories() map[component.Type]connector.Factory {
	mk := func(typ string) connector.Factory {
		newC := func(set connector.Settings, from string, next anyConsumer) *stubConnector {
			key := fmt.Sprintf("connector:%s:%s->%s", set.ID.String(), from, next.sig)
			return &stubConnector{stubBase: w.newBase(key), from: from, to: next.sig, next: next, tag: set.ID.String(), routing: typ == "rt"}
		}
		var opts []xconnector.FactoryOption
		st := component.StabilityLevelStable
		if connSupports(typ, sigProfiles, sigProfiles) {
			opts = append(opts, xconnector.WithProfilesToProfiles(func(_ context.Context, set connector.Settings, _ component.Config, next xconsumer.Profiles) (xconnector.Profiles, error) {
				return newC(set, sigProfiles, anyConsumer{sig: sigProfiles, p: next}), nil
			}, st))
		}
		if connSupports(typ, sigProfiles, sigLogs) {
			opts = append(opts, xconnector.WithProfilesToLogs(func(_ context.Context, set connector.Settings, _ component.Config, next consumer.Logs) (xconnector.Profiles, error) {
				return newC(set, sigProfiles, anyConsumer{sig: sigLogs, l: next}), nil
			}, st))
		}
		if connSupports(typ, sigProfiles, sigTraces) {
			opts = append(opts, xconnector.WithProfilesToTraces(func(_ context.Context, set connector.Settings, _ component.Config, next consumer.Traces) (xconnector.Profiles, error) {
				return newC(set, sigProfiles, anyConsumer{sig: sigTraces, t: next}), nil
			}, st))
		}
		if connSupports(typ, sigProfiles, sigMetrics) {
			opts = append(opts, xconnector.WithProfilesToMetrics(func(_ context.Context, set connector.Settings, _ component.Config, next consumer.Metrics) (xconnector.Profiles, error) {
				return newC(set, sigProfiles, anyConsumer{sig: sigMetrics, m: next}), nil
			}, st))
		}
		if connSupports(typ, sigLogs, sigProfiles) {
			opts = append(opts, xconnector.WithLogsToProfiles(func(_ context.Context, set connector.Settings, _ component.Config, next xconsumer.Profiles) (connector.Logs, error) {
				return newC(set, sigLogs, anyConsumer{sig: sigProfiles, p: next}), nil
			}, st))
		}
		if connSupports(typ, sigTraces, sigProfiles) {
			opts = append(opts, xconnector.WithTracesToProfiles(func(_ context.Context, set connector.Settings, _ component.Config, next xconsumer.Profiles) (connector.Traces, error) {
				return newC(set, sigTraces, anyConsumer{sig: sigProfiles, p: next}), nil
			}, st))
		}
		if connSupports(typ, sigMetrics, sigProfiles) {
			opts = append(opts, xconnector.WithMetricsToProfiles(func(_ context.Context, set connector.Settings, _ component.Config, next xconsumer.Profiles) (connector.Metrics, error) {
				return newC(set, sigMetrics, anyConsumer{sig: sigProfiles, p: next}), nil
			}, st))
		}
		if connSupports(typ, sigLogs, sigLogs) {
			opts = append(opts, xconnector.WithLogsToLogs(func(_ context.Context, set connector.Settings, _ component.Config, next consumer.Logs) (connector.Logs, error) {
				return newC(set, sigLogs, anyConsumer{sig: sigLogs, l: next}), nil
			}, st))
		}
		if connSupports(typ, sigLogs, sigTraces) {
			opts = append(opts, xconnector.WithLogsToTraces(func(_ context.Context, set connector.Settings, _ component.Config, next consumer.Traces) (connector.Logs, error) {
				return newC(set, sigLogs, anyConsumer{sig: sigTraces, t: next}), nil
			}, st))
		}
		if connSupports(typ, sigLogs, sigMetrics) {
			opts = append(opts, xconnector.WithLogsToMetrics(func(_ context.Context, set connector.Settings, _ component.Config, next consumer.Metrics) (connector.Logs, error) {
				return newC(set, sigLogs, anyConsumer{sig: sigMetrics, m: next}), nil
			}, st))
		}
		if connSupports(typ, sigTraces, sigLogs) {
			opts = append(opts, xconnector.WithTracesToLogs(func(_ context.Context, set connector.Settings, _ component.Config, next consumer.Logs) (connector.Traces, error) {
				return newC(set, sigTraces, anyConsumer{sig: sigLogs, l: next}), nil
			}, st))
		}
		if connSupports(typ, sigTraces, sigTraces) {
			opts = append(opts, xconnector.WithTracesToTraces(func(_ context.Context, set connector.Settings, _ component.Config, next consumer.Traces) (connector.Traces, error) {
				return newC(set, sigTraces, anyConsumer{sig: sigTraces, t: next}), nil
			}, st))
		}
		if connSupports(typ, sigTraces, sigMetrics) {
			opts = append(opts, xconnector.WithTracesToMetrics(func(_ context.Context, set connector.Settings, _ component.Config, next consumer.Metrics) (connector.Traces, error) {
				return newC(set, sigTraces, anyConsumer{sig: sigMetrics, m: next}), nil
			}, st))
		}
		if connSupports(typ, sigMetrics, sigLogs) {
			opts = append(opts, xconnector.WithMetricsToLogs(func(_ context.Context, set connector.Settings, _ component.Config, next consumer.Logs) (connector.Metrics, error) {
				return newC(set, sigMetrics, anyConsumer{sig: sigLogs, l: next}), nil
			}, st))
		}
		if connSupports(typ, sigMetrics, sigTraces) {
			opts = append(opts, xconnector.WithMetricsToTraces(func(_ context.Context, set connector.Settings, _ component.Config, next consumer.Traces) (connector.Metrics, error) {
				return newC(set, sigMetrics, anyConsumer{sig: sigTraces, t: next}), nil
			}, st))
		}
		if connSupports(typ, sigMetrics, sigMetrics) {
			opts = append(opts, xconnector.WithMetricsToMetrics(func(_ context.Context, set connector.Settings, _ component.Config, next consumer.Metrics) (connector.Metrics, error) {
				return newC(set, sigMetrics, anyConsumer{sig: sigMetrics, m: next}), nil
			}, st))
		}
		return xconnector.NewFactory(component.MustNewType(typ), func() component.Config { return &stubCfg{} }, opts...)
	}
	return map[component.Type]connector.Factory{
		// the repository's real forward connector: it passes the SAME payload object on to the next pipelines
		component.MustNewType("forward"): forwardconnector.NewFactory(),
		component.MustNewType("fwd"):     mk("fwd"),
		component.MustNewType("conv"):    mk("conv"),
		component.MustNewType("l2m"):     mk("l2m"),
		component.MustNewType("asym"):    mk("asym"),
		component.MustNewType("rnd"):     mk("rnd"),
		component.MustNewType("rt"):      mk("rt"),
	}
}

// ---- extensions ---------------------------------------------------------------------------------------------

type stubExtension struct {
	*stubBase
	deps []component.ID
}

func (e *stubExtension) Dependencies() []component.ID { return e.deps }

// watcherExtension records status changes, config notifications and readiness.
type watcherExtension struct {
	*stubBase
}

func (e *watcherExtension) ComponentStatusChanged(src *componentstatus.InstanceID, ev *componentstatus.Event) {
	e.w.mu.Lock()
	e.w.statusLog = append(e.w.statusLog, fmt.Sprintf("%s|%s|%s", instKey(src), ev.Status(), errStr(ev.Err())))
	hook := e.w.onStatus
	e.w.mu.Unlock()
	if hook != nil {
		// a seam inside the status delivery path (it runs with the reporter's lock held, and during the replay to a
		// late-attached instance of a shared component): the simulation may start concurrent work here
		hook(instKey(src), ev.Status())
	}
}
func (e *watcherExtension) NotifyConfig(context.Context, *confmap.Conf) error {
	e.w.emit("notify-config", e.key, e.gen, "")
	if e.w.plan(e.key).FailNotifyConfig {
		e.w.emit("hook-fail", e.key, e.gen, "notify-config")
		return fmt.Errorf("%s: notify-config: %w", e.key, errStubStart)
	}
	return nil
}
func (e *watcherExtension) Ready() error {
	e.w.emit("ready", e.key, e.gen, "")
	if e.w.plan(e.key).FailReady {
		e.w.emit("hook-fail", e.key, e.gen, "ready")
		return fmt.Errorf("%s: ready: %w", e.key, errStubStart)
	}
	return nil
}
func (e *watcherExtension) NotReady() error {
	e.w.emit("not-ready", e.key, e.gen, "")
	if e.w.plan(e.key).FailNotReady {
		e.w.emit("hook-fail", e.key, e.gen, "not-ready")
		return fmt.Errorf("%s: not-ready: %w", e.key, errStubShutdown)
	}
	return nil
}

var _ extensioncapabilities.ConfigWatcher = (*watcherExtension)(nil)
var _ extensioncapabilities.PipelineWatcher = (*watcherExtension)(nil)
var _ extensioncapabilities.Dependent = (*stubExtension)(nil)

func errStr(err error) string {
	if err == nil {
		return ""
	}
	return err.Error()
}

func instKey(id *componentstatus.InstanceID) string {
	var ps []string
	id.AllPipelineIDs(func(p pipeline.ID) bool { ps = append(ps, p.String()); return true })
	sort.Strings(ps)
	return fmt.Sprintf("%s:%s@[%s]", strings.ToLower(id.Kind().String()), id.ComponentID().String(), strings.Join(ps, ","))
}

func (w *World) StatusLog() []string {
	w.mu.Lock()
	defer w.mu.Unlock()
	return append([]string(nil), w.statusLog...)
}

// extDeps: extension id -> ids it depends on (set by the simulation before service.New)
func (w *World) extensionFactories(deps map[string][]string) map[component.Type]extension.Factory {
	ext := extension.NewFactory(component.MustNewType("ext"), func() component.Config { return &stubCfg{} },
		func(_ context.Context, set extension.Settings, _ component.Config) (extension.Extension, error) {
			e := &stubExtension{stubBase: w.newBase("extension:" + set.ID.String())}
			for _, d := range deps[set.ID.String()] {
				var id component.ID
				if err := id.UnmarshalText([]byte(d)); err != nil {
					panic(err)
				}
				e.deps = append(e.deps, id)
			}
			return e, nil
		}, component.StabilityLevelStable)
	watch := extension.NewFactory(component.MustNewType("watch"), func() component.Config { return &stubCfg{} },
		func(_ context.Context, set extension.Settings, _ component.Config) (extension.Extension, error) {
			return &watcherExtension{stubBase: w.newBase("extension:" + set.ID.String())}, nil
		}, component.StabilityLevelStable)
	return map[component.Type]extension.Factory{component.MustNewType("ext"): ext, component.MustNewType("watch"): watch}
}

func mustID(s string) component.ID {
	var id component.ID
	if err := id.UnmarshalText([]byte(s)); err != nil {
		panic(err)
	}
	return id
}

func typeOf(id string) string {
	if i := strings.IndexByte(id, '/'); i >= 0 {
		return id[:i]
	}
	return id
}

func evKind(ev string) string {
	if i := strings.IndexByte(ev, ':'); i > 0 {
		return ev[:i]
	}
	return ev
}
