package verifsim

import (
	"bytes"
	"compress/gzip"
	"compress/zlib"
	"context"
	"fmt"
	"io"
	"log"
	"net"
	"net/http"
	"runtime"
	"strings"
	"sync"
	"time"

	"go.opentelemetry.io/collector/component/componenttest"
	"go.opentelemetry.io/collector/config/configcompression"
	"go.opentelemetry.io/collector/config/confighttp"
	"verif.local/simkit"
)

// ---- C16: HTTP body compression round trip and the decompressed-size limit ----------------------------------
// Real client round-tripper and real server middleware over kernel loopback TCP (no add-only seam exists for an
// in-memory transport); the simulator owns the listener and re-chunks / truncates what the server reads.

type chunkConn struct {
	net.Conn
	chunk    int
	truncate int // fail after this many bytes have been read (0 = never)
	read     int
	mu       sync.Mutex
	head     *[]byte // first bytes of the stream (request line + headers), shared with the listener
}

func (c *chunkConn) Read(p []byte) (int, error) {
	c.mu.Lock()
	defer c.mu.Unlock()
	if c.truncate > 0 && c.read >= c.truncate {
		_ = c.Conn.Close()
		return 0, io.ErrUnexpectedEOF
	}
	if len(p) > c.chunk {
		p = p[:c.chunk]
	}
	if c.truncate > 0 && len(p) > c.truncate-c.read {
		p = p[:c.truncate-c.read]
	}
	n, err := c.Conn.Read(p)
	c.read += n
	if c.head != nil && len(*c.head) < 4096 {
		*c.head = append(*c.head, p[:n]...)
	}
	return n, err
}

type chunkListener struct {
	net.Listener
	chunk, truncate int
	mu              sync.Mutex
	heads           []*[]byte // one per accepted connection
}

func (l *chunkListener) Accept() (net.Conn, error) {
	c, err := l.Listener.Accept()
	if err != nil {
		return nil, err
	}
	h := new([]byte)
	l.mu.Lock()
	l.heads = append(l.heads, h)
	tr := l.truncate
	l.mu.Unlock()
	return &chunkConn{Conn: c, chunk: l.chunk, truncate: tr, head: h}, nil
}

// lastHead returns the first bytes of the most recently accepted connection.
func (l *chunkListener) lastHead() []byte {
	l.mu.Lock()
	defer l.mu.Unlock()
	if len(l.heads) == 0 {
		return nil
	}
	return *l.heads[len(l.heads)-1]
}

func (l *chunkListener) setTruncate(n int) {
	l.mu.Lock()
	l.truncate = n
	l.mu.Unlock()
}

type c16Cfg struct {
	Algo       string   `json:"client_compression"`
	Level      int      `json:"level"`
	Enabled    []string `json:"server_compression_algorithms"`
	Limit      int64    `json:"max_request_body_size"`
	BodyKind   string   `json:"body_kind"`
	BodyLen    int      `json:"body_len"`
	Chunk      int      `json:"server_read_chunk"`
	Truncate   int      `json:"truncate_stream_after"`
	HandlerBuf int      `json:"handler_buffer"`
	// UnknownLength: the request body is a plain io.Reader, so an uncompressed request goes out chunked, without
	// Content-Length
	UnknownLength bool `json:"body_of_unknown_length"`
	// DataWithEOF: the body reader hands out its last bytes together with io.EOF (as the body of an incoming HTTP
	// request with a Content-Length does, e.g. when a received request is forwarded)
	DataWithEOF bool `json:"body_reader_returns_data_with_eof,omitempty"`
	// Prelude: an earlier request through the same client and server (other body, possibly cut mid-stream) that leaves
	// pooled encoders / decoders in a used state; only the second request is judged
	Prelude    int `json:"prelude_request_body_len,omitempty"`
	PreludeCut int `json:"prelude_truncate_stream_after,omitempty"`
}

func makeBody(tp *simkit.Tape, kind string, n int) []byte {
	b := make([]byte, n)
	switch kind {
	case "zeros":
	case "text":
		pat := []byte("the quick brown fox jumps over the lazy dog. ")
		for i := range b {
			b[i] = pat[i%len(pat)]
		}
	default: // incompressible: xorshift seeded from the tape
		x := uint64(tp.Draw(1<<30)) + 0x9e3779b97f4a7c15
		for i := range b {
			x ^= x << 13
			x ^= x >> 7
			x ^= x << 17
			b[i] = byte(x)
		}
	}
	return b
}

var c16Algos = []string{"", "gzip", "zlib", "deflate", "zstd", "snappy", "lz4"}

// runC16Overlap: several requests through ONE server and ONE client: 0-4 earlier requests (whose handler may close the
// body itself, as the OTLP receiver does), then three requests that overlap in time - each handler reads the first part
// of its body, waits until the other handler has done the same, then reads the rest. Whatever the middleware pools or
// shares between requests (encoders, decoders, buffers), every handler must read exactly the bytes its own client call
// was given.
func runC16Overlap(r *simkit.Run) {
	tp := r.Tape
	algo := c16Algos[tp.Draw(len(c16Algos))]
	closes := tp.Chance(1, 2)
	nPre := tp.Draw(5)
	lens := []int{tp.Range(1500, 6000), tp.Range(1500, 6000), tp.Range(1500, 6000)}
	if tp.Chance(1, 2) {
		lens[tp.Draw(3)] = []int{70000, 140000, 1100000}[tp.Draw(3)]
	}
	// early answer: one more request E with a body too large for the socket buffers, whose handler answers after the
	// first kilobyte (full duplex) and reads the rest only when every other request of the run is over. Its client call
	// has returned by then, the transport is still sending its body: whatever the client side recycles when the call
	// returns must not be what the transport still reads from.
	early := algo != "" && tp.Chance(1, 2)
	earlyLen := 0
	if early {
		earlyLen = []int{6 << 20, 8 << 20}[tp.Draw(2)]
		if nPre == 0 {
			nPre = 1
		}
	}
	r.Sample = map[string]any{"mode": "overlap", "client_compression": algo, "handler_closes_body": closes, "earlier_requests": nPre, "body_lens": lens, "early_answered_request_body_len": earlyLen}
	r.Logf("overlap algo=%q closes=%v earlier=%d lens=%v early=%d", algo, closes, nPre, lens, earlyLen)
	r.Count("probe.overlapping_requests")
	// Whatever earlier runs of this process left in sync.Pools of the middleware is dropped (two collections empty every
	// sync.Pool): the run then depends only on its own requests and can be replayed in a fresh process.
	runtime.GC()
	runtime.GC()
	type seen struct {
		got []byte
		err error
	}
	var mu sync.Mutex
	reads := map[string]*seen{}
	arrived := make(chan struct{}, 3)
	release := make(chan struct{})
	eAnswered := make(chan struct{})
	eRelease := make(chan struct{})
	eDone := make(chan struct{})
	handler := http.HandlerFunc(func(w http.ResponseWriter, req *http.Request) {
		id := req.Header.Get("X-Sim-Req")
		var mine []byte
		var myErr error
		if id == "E" {
			defer close(eDone)
			_ = http.NewResponseController(w).EnableFullDuplex()
			head := make([]byte, 1024)
			n, err := io.ReadFull(req.Body, head)
			mine = append(mine, head[:n]...)
			if err == nil {
				w.WriteHeader(http.StatusOK)
				_ = http.NewResponseController(w).Flush()
				close(eAnswered)
				select {
				case <-eRelease:
				case <-time.After(15 * time.Second):
				}
				simkit.Beat()
				var rest []byte
				rest, err = io.ReadAll(req.Body)
				mine = append(mine, rest...)
				simkit.Beat()
			} else {
				close(eAnswered)
			}
			mu.Lock()
			reads[id] = &seen{got: mine, err: err}
			mu.Unlock()
			return
		}
		buf := make([]byte, 512)
		barrier := id == "A" || id == "B" || id == "C"
		for {
			n, err := req.Body.Read(buf)
			mine = append(mine, buf[:n]...)
			if barrier && len(mine) >= 1024 {
				barrier = false
				arrived <- struct{}{}
				select {
				case <-release:
				case <-time.After(3 * time.Second):
				}
			}
			if err != nil {
				if err != io.EOF {
					myErr = err
				}
				break
			}
			if len(mine) > 4<<20 {
				break
			}
		}
		if closes {
			_ = req.Body.Close()
		}
		mu.Lock()
		reads[id] = &seen{got: mine, err: myErr}
		mu.Unlock()
		if myErr != nil {
			http.Error(w, myErr.Error(), http.StatusBadRequest)
			return
		}
		w.WriteHeader(http.StatusOK)
	})
	sc := confighttp.NewDefaultServerConfig()
	port, _ := nextPortPair()
	for i := 0; i < 200 && !portsFree(port); i++ {
		port, _ = nextPortPair()
	}
	sc.Endpoint = fmt.Sprintf("127.0.0.1:%d", port)
	sc.TLSSetting = nil
	srv, err := sc.ToServer(context.Background(), componenttest.NewNopHost(), componenttest.NewNopTelemetrySettings(), handler)
	if err != nil {
		panic(err)
	}
	srv.SetKeepAlivesEnabled(false)
	ln, err := sc.ToListener(context.Background())
	if err != nil {
		r.Count("probe.infra_socket_unavailable")
		time.Sleep(200 * time.Millisecond)
		return
	}
	done := make(chan struct{})
	go func() { _ = srv.Serve(ln); close(done) }()
	defer func() {
		_ = srv.Close()
		<-done
	}()
	cc := confighttp.NewDefaultClientConfig()
	cc.Endpoint = "http://" + ln.Addr().String()
	cc.Compression = configcompression.Type(algo)
	cc.Timeout = 20 * time.Second
	client, err := cc.ToClient(context.Background(), componenttest.NewNopHost(), componenttest.NewNopTelemetrySettings())
	if err != nil {
		panic(err)
	}
	defer client.CloseIdleConnections()
	post := func(id string, body []byte) (int, error) {
		req, err := http.NewRequest(http.MethodPost, cc.Endpoint+"/", bytes.NewReader(body))
		if err != nil {
			panic(err)
		}
		req.Header.Set("X-Sim-Req", id)
		req.Header.Set("Content-Type", "application/octet-stream")
		resp, err := client.Do(req)
		if err != nil {
			return 0, err
		}
		_, _ = io.Copy(io.Discard, resp.Body)
		_ = resp.Body.Close()
		return resp.StatusCode, nil
	}
	infra := func(err error) bool {
		return err != nil && (strings.Contains(err.Error(), "cannot assign requested address") || strings.Contains(err.Error(), "address already in use"))
	}
	var bodyE []byte
	var respE *http.Response
	if early {
		// several megabytes are compressed and pushed through a loopback socket: on a loaded machine that can take longer
		// than the watchdog's step budget. A helper keeps the watchdog informed for at most two minutes (a real hang
		// still trips it after that).
		stopBeat := make(chan struct{})
		defer close(stopBeat)
		go func() {
			t := time.NewTicker(time.Second)
			defer t.Stop()
			for i := 0; i < 120; i++ {
				select {
				case <-stopBeat:
					return
				case <-t.C:
					simkit.Beat()
				}
			}
		}()
		r.Count("probe.request_answered_before_its_body_was_sent")
		bodyE = makeBody(tp, "random", earlyLen)
		req, err := http.NewRequest(http.MethodPost, cc.Endpoint+"/", bytes.NewReader(bodyE))
		if err != nil {
			panic(err)
		}
		req.Header.Set("X-Sim-Req", "E")
		req.Header.Set("Content-Type", "application/octet-stream")
		respE, err = client.Do(req)
		if infra(err) {
			r.Count("probe.infra_socket_unavailable")
			time.Sleep(200 * time.Millisecond)
			return
		}
		if err != nil {
			r.Failf("content", "early-answer/request-failed/"+algoName(algo), "request E (%d bytes, %s), answered by its handler after the first kilobyte, failed: %v", len(bodyE), algoName(algo), sanitize(err, port))
			return
		}
		<-eAnswered
		simkit.Beat()
	}
	for i := 0; i < nPre; i++ {
		if _, err := post(fmt.Sprint("pre", i), makeBody(tp, "text", tp.Range(1200, 5000))); infra(err) {
			r.Count("probe.infra_socket_unavailable")
			time.Sleep(200 * time.Millisecond)
			return
		}
		simkit.Beat()
	}
	bodies := map[string][]byte{"A": makeBody(tp, "random", lens[0]), "B": makeBody(tp, "text", lens[1]), "C": makeBody(tp, "random", lens[2])}
	twins := []string{"A", "B", "C"}
	type res struct {
		id     string
		status int
		err    error
	}
	out := make(chan res, 3)
	for _, id := range twins {
		id := id
		go func() {
			st, err := post(id, bodies[id])
			out <- res{id, st, err}
		}()
	}
	// both handlers in the middle of their bodies (or 3 s), then let them finish
	for range twins {
		select {
		case <-arrived:
		case <-time.After(3 * time.Second):
		}
	}
	close(release)
	results := map[string]res{}
	for range twins {
		x := <-out
		results[x.id] = x
		simkit.Beat()
	}
	if early {
		close(eRelease)
		simkit.Beat()
		finished := false
		for i := 0; i < 12 && !finished; i++ {
			select {
			case <-eDone:
				finished = true
			case <-time.After(5 * time.Second):
				simkit.Beat()
			}
		}
		_ = respE.Body.Close()
		simkit.Beat()
		mu.Lock()
		sn := reads["E"]
		mu.Unlock()
		switch {
		case !finished || sn == nil:
			// a minute was not enough for the handler to read a few megabytes from a loopback socket: the machine is
			// overloaded. No verdict from this run (counted; a handler that reads wrong bytes finishes and is judged).
			r.Count("probe.infra_machine_too_slow_for_early_answer_scenario")
			return
		case sn.err != nil || !bytes.Equal(sn.got, bodyE):
			r.Failf("content", "early-answer/round-trip/"+algoName(algo), "request E was answered after its first kilobyte and its handler read the rest after %d later requests through the same client: it read %d bytes (err=%v), its client was given %d bytes (%s)", nPre+3, len(sn.got), sn.err, len(bodyE), algoName(algo))
		}
		r.Events++
	}
	_ = srv.Close()
	<-done
	r.Events += len(twins) + nPre
	r.Nontrivial = true
	for _, id := range twins {
		x := results[id]
		if infra(x.err) {
			r.Count("probe.infra_socket_unavailable")
			return
		}
		mu.Lock()
		sn := reads[id]
		mu.Unlock()
		switch {
		case x.err != nil:
			r.Failf("content", "overlap/request-failed/"+algoName(algo), "request %s (%d bytes, %s) overlapping with another one failed: %v", id, len(bodies[id]), algoName(algo), sanitize(x.err, port))
		case sn == nil:
			r.Failf("content", "overlap/handler-not-run/"+algoName(algo), "request %s (%d bytes, %s) overlapping with another one did not reach the handler: status %d", id, len(bodies[id]), algoName(algo), x.status)
		case sn.err != nil || !bytes.Equal(sn.got, bodies[id]):
			whose := ""
			for _, other := range twins {
				if other != id && len(sn.got) > 0 && bytes.Contains(bodies[other], sn.got[len(sn.got)-min(len(sn.got), 64):]) {
					whose = " (its last bytes are bytes of request " + other + ")"
				}
			}
			r.Failf("content", "overlap/round-trip/"+algoName(algo), "overlapping requests: the handler of request %s read %d bytes (err=%v), its client was given %d bytes (%s)%s; status %d", id, len(sn.got), sn.err, len(bodies[id]), algoName(algo), whose, x.status)
		}
	}
	r.State(fmt.Sprintf("overlap algo=%s closes=%v pre=%d", algo, closes, nPre), "request")
}

// runC16RawHeader: a gzip body sent by a raw client whose Content-Encoding header is spelled unusually (other case,
// surrounding blanks, a list of codings, "identity"). The server may decode it or refuse it with a client error before
// the handler runs; what it may not do is run the handler on bytes that are neither the original body nor - when the
// header names no coding at all - the bytes as sent.
func runC16RawHeader(r *simkit.Run) {
	tp := r.Tape
	hv := []string{"GZIP", "Gzip", " gzip", "gzip ", "gzip, gzip", "gzip,identity", "identity", "x-gzip", "gzip;q=1"}[tp.Draw(9)]
	body := makeBody(tp, "text", tp.Range(1, 3000))
	var zb bytes.Buffer
	zw := gzip.NewWriter(&zb)
	_, _ = zw.Write(body)
	_ = zw.Close()
	wire := zb.Bytes()
	r.Sample = map[string]any{"mode": "raw-header", "content_encoding": hv, "body_len": len(body)}
	r.Logf("raw header %q body %d bytes (gzip %d bytes)", hv, len(body), len(wire))
	r.Count("probe.raw_content_encoding_header")
	var hwg sync.WaitGroup
	var got []byte
	var readErr error
	ran := false
	handler := http.HandlerFunc(func(w http.ResponseWriter, req *http.Request) {
		hwg.Add(1)
		defer hwg.Done()
		b, err := io.ReadAll(req.Body)
		got, readErr, ran = b, err, true
		if err != nil {
			http.Error(w, err.Error(), http.StatusBadRequest)
			return
		}
		w.WriteHeader(http.StatusOK)
	})
	sc := confighttp.NewDefaultServerConfig()
	port, _ := nextPortPair()
	for i := 0; i < 200 && !portsFree(port); i++ {
		port, _ = nextPortPair()
	}
	sc.Endpoint = fmt.Sprintf("127.0.0.1:%d", port)
	sc.TLSSetting = nil
	srv, err := sc.ToServer(context.Background(), componenttest.NewNopHost(), componenttest.NewNopTelemetrySettings(), handler)
	if err != nil {
		panic(err)
	}
	srv.SetKeepAlivesEnabled(false)
	ln, err := sc.ToListener(context.Background())
	if err != nil {
		r.Count("probe.infra_socket_unavailable")
		time.Sleep(200 * time.Millisecond)
		return
	}
	done := make(chan struct{})
	go func() { _ = srv.Serve(ln); close(done) }()
	req, err := http.NewRequest(http.MethodPost, "http://"+ln.Addr().String()+"/", bytes.NewReader(wire))
	if err != nil {
		panic(err)
	}
	req.Header["Content-Encoding"] = []string{hv}
	req.Close = true
	cl := &http.Client{Timeout: 10 * time.Second}
	resp, perr := cl.Do(req)
	status := 0
	if perr == nil {
		status = resp.StatusCode
		_, _ = io.Copy(io.Discard, resp.Body)
		_ = resp.Body.Close()
	}
	cl.CloseIdleConnections()
	_ = srv.Close()
	<-done
	hwg.Wait()
	r.Events++
	r.Nontrivial = true
	if perr != nil {
		if strings.Contains(perr.Error(), "cannot assign requested address") || strings.Contains(perr.Error(), "address already in use") {
			r.Count("probe.infra_socket_unavailable")
			return
		}
		r.Logf("client error: %v", sanitize(perr, port))
		return
	}
	r.Logf("status=%d handlerRan=%v got=%d bytes", status, ran, len(got))
	switch {
	case !ran:
		if status < 400 || status > 499 {
			r.Failf("reject", "raw-header/status", "Content-Encoding %q: the handler did not run and the response status is %d (expected a client error)", hv, status)
		}
	case readErr != nil:
		// the handler ran and reading failed: it got an error, not wrong bytes
	case bytes.Equal(got, body):
		r.Count("probe.raw_header_decoded")
	case strings.TrimSpace(strings.ToLower(hv)) == "identity" && bytes.Equal(got, wire):
		// no coding named: the bytes pass as sent
	default:
		r.Failf("content", "raw-header/handler-read-undecoded-or-wrong-bytes", "Content-Encoding %q: the handler read %d bytes that are neither the %d original bytes nor an error (the %d bytes as sent: %v)", hv, len(got), len(body), len(wire), bytes.Equal(got, wire))
	}
}

// runC16PreEncoded: the caller has compressed the body itself (gzip or zlib, standard library) and says so in the
// Content-Encoding header; the request goes through the collector's client, which is configured with an algorithm of
// its own (the same, another one, or none). The server (default settings: both codings enabled) decodes what the header
// names: the handler reads exactly the caller's original bytes.
func runC16PreEncoded(r *simkit.Run) {
	tp := r.Tape
	coding := []string{"gzip", "zlib", "deflate"}[tp.Draw(3)]
	algo := c16Algos[tp.Draw(len(c16Algos))]
	body := makeBody(tp, []string{"text", "random", "zeros"}[tp.Draw(3)], tp.Range(1, 20000))
	var zb bytes.Buffer
	if coding == "gzip" {
		zw := gzip.NewWriter(&zb)
		_, _ = zw.Write(body)
		_ = zw.Close()
	} else {
		zw := zlib.NewWriter(&zb)
		_, _ = zw.Write(body)
		_ = zw.Close()
	}
	wire := zb.Bytes()
	r.Sample = map[string]any{"mode": "pre-encoded", "content_encoding": coding, "client_compression": algo, "body_len": len(body)}
	r.Logf("pre-encoded %s body %d bytes (%d on the wire) through a client with compression %q", coding, len(body), len(wire), algo)
	r.Count("probe.request_already_carrying_content_encoding")
	var hwg sync.WaitGroup
	var got []byte
	var readErr error
	ran := false
	handler := http.HandlerFunc(func(w http.ResponseWriter, req *http.Request) {
		hwg.Add(1)
		defer hwg.Done()
		b, err := io.ReadAll(req.Body)
		got, readErr, ran = b, err, true
		if err != nil {
			http.Error(w, err.Error(), http.StatusBadRequest)
			return
		}
		w.WriteHeader(http.StatusOK)
	})
	sc := confighttp.NewDefaultServerConfig()
	port, _ := nextPortPair()
	for i := 0; i < 200 && !portsFree(port); i++ {
		port, _ = nextPortPair()
	}
	sc.Endpoint = fmt.Sprintf("127.0.0.1:%d", port)
	sc.TLSSetting = nil
	srv, err := sc.ToServer(context.Background(), componenttest.NewNopHost(), componenttest.NewNopTelemetrySettings(), handler)
	if err != nil {
		panic(err)
	}
	srv.SetKeepAlivesEnabled(false)
	ln, err := sc.ToListener(context.Background())
	if err != nil {
		r.Count("probe.infra_socket_unavailable")
		time.Sleep(200 * time.Millisecond)
		return
	}
	done := make(chan struct{})
	go func() { _ = srv.Serve(ln); close(done) }()
	cc := confighttp.NewDefaultClientConfig()
	cc.Endpoint = "http://" + ln.Addr().String()
	cc.Compression = configcompression.Type(algo)
	client, err := cc.ToClient(context.Background(), componenttest.NewNopHost(), componenttest.NewNopTelemetrySettings())
	if err != nil {
		panic(err)
	}
	req, err := http.NewRequest(http.MethodPost, "http://"+ln.Addr().String()+"/", bytes.NewReader(wire))
	if err != nil {
		panic(err)
	}
	req.Header.Set("Content-Encoding", coding)
	req.Close = true
	resp, perr := client.Do(req)
	status := 0
	if perr == nil {
		status = resp.StatusCode
		_, _ = io.Copy(io.Discard, resp.Body)
		_ = resp.Body.Close()
	}
	client.CloseIdleConnections()
	_ = srv.Close()
	<-done
	hwg.Wait()
	r.Events++
	r.Nontrivial = true
	if perr != nil {
		if strings.Contains(perr.Error(), "cannot assign requested address") || strings.Contains(perr.Error(), "address already in use") {
			r.Count("probe.infra_socket_unavailable")
			return
		}
		r.Failf("content", "pre-encoded/client-error", "a %s-encoded request through a client with compression %q failed: %v", coding, algo, sanitize(perr, port))
		return
	}
	r.Logf("status=%d handlerRan=%v got=%d bytes err=%v", status, ran, len(got), readErr)
	if !ran || readErr != nil || status != http.StatusOK || !bytes.Equal(got, body) {
		r.Failf("content", "pre-encoded/"+coding, "the caller sent %d bytes %s-encoded (Content-Encoding: %s) through a client with compression %q: handler ran=%v, read %d bytes (err=%v), status %d - it must read exactly the caller's bytes", len(body), coding, coding, algo, ran, len(got), readErr, status)
	}
}

// runC16Replay: the transport re-sends a request by itself. Request A opens a keep-alive connection; request B (marked
// replayable with an Idempotency-Key header) goes out on that connection, the handler reads its whole body and then
// aborts the connection without an answer; net/http's transport then replays B on a fresh connection, rewinding the
// body through GetBody. The handler that finally answers B must have read exactly the bytes the client was given.
func runC16Replay(r *simkit.Run) {
	tp := r.Tape
	algo := c16Algos[tp.Draw(len(c16Algos))]
	bodyA := makeBody(tp, "text", tp.Range(1, 3000))
	bodyB := makeBody(tp, []string{"text", "random", "zeros"}[tp.Draw(3)], []int{1, 900, 5000, 70000}[tp.Draw(4)])
	r.Sample = map[string]any{"mode": "transport-replay", "client_compression": algo, "body_len": len(bodyB)}
	r.Logf("replay algo=%q body %d bytes", algo, len(bodyB))
	r.Count("probe.transport_replay_mode")
	runtime.GC()
	runtime.GC()
	var mu sync.Mutex
	var hwg sync.WaitGroup
	calls := map[string]int{}
	var lastB []byte
	var lastErr error
	handler := http.HandlerFunc(func(w http.ResponseWriter, req *http.Request) {
		hwg.Add(1)
		defer hwg.Done()
		id := req.Header.Get("X-Sim-Req")
		b, err := io.ReadAll(req.Body)
		mu.Lock()
		calls[id]++
		n := calls[id]
		if id == "B" {
			lastB, lastErr = b, err
		}
		mu.Unlock()
		if id == "B" && n == 1 {
			panic(http.ErrAbortHandler) // the connection dies after the body was consumed, before any response byte
		}
		if err != nil {
			http.Error(w, err.Error(), http.StatusBadRequest)
			return
		}
		w.WriteHeader(http.StatusOK)
	})
	sc := confighttp.NewDefaultServerConfig()
	port, _ := nextPortPair()
	for i := 0; i < 200 && !portsFree(port); i++ {
		port, _ = nextPortPair()
	}
	sc.Endpoint = fmt.Sprintf("127.0.0.1:%d", port)
	sc.TLSSetting = nil
	srv, err := sc.ToServer(context.Background(), componenttest.NewNopHost(), componenttest.NewNopTelemetrySettings(), handler)
	if err != nil {
		panic(err)
	}
	srv.ErrorLog = log.New(io.Discard, "", 0) // the deliberate abort is not news
	ln, err := sc.ToListener(context.Background())
	if err != nil {
		r.Count("probe.infra_socket_unavailable")
		time.Sleep(200 * time.Millisecond)
		return
	}
	done := make(chan struct{})
	go func() { _ = srv.Serve(ln); close(done) }()
	cc := confighttp.NewDefaultClientConfig()
	cc.Endpoint = "http://" + ln.Addr().String()
	cc.Compression = configcompression.Type(algo)
	cc.Timeout = 20 * time.Second
	client, err := cc.ToClient(context.Background(), componenttest.NewNopHost(), componenttest.NewNopTelemetrySettings())
	if err != nil {
		panic(err)
	}
	post := func(id string, body []byte) (int, error) {
		req, err := http.NewRequest(http.MethodPost, cc.Endpoint+"/", bytes.NewReader(body))
		if err != nil {
			panic(err)
		}
		req.Header.Set("X-Sim-Req", id)
		req.Header.Set("Idempotency-Key", "sim-"+id)
		req.Header.Set("Content-Type", "application/octet-stream")
		resp, err := client.Do(req)
		if err != nil {
			return 0, err
		}
		_, _ = io.Copy(io.Discard, resp.Body)
		_ = resp.Body.Close()
		return resp.StatusCode, nil
	}
	stA, errA := post("A", bodyA)
	simkit.Beat()
	stB, errB := post("B", bodyB)
	simkit.Beat()
	client.CloseIdleConnections()
	_ = srv.Close()
	<-done
	hwg.Wait()
	r.Events += 2
	r.Nontrivial = true
	for _, e := range []error{errA, errB} {
		if e != nil && (strings.Contains(e.Error(), "cannot assign requested address") || strings.Contains(e.Error(), "address already in use")) {
			r.Count("probe.infra_socket_unavailable")
			return
		}
	}
	mu.Lock()
	nB, got, gerr := calls["B"], lastB, lastErr
	mu.Unlock()
	r.Logf("A: status=%d err=%v; B: status=%d err=%v handler calls=%d", stA, errA != nil, stB, errB != nil, nB)
	if errA != nil || stA != http.StatusOK {
		return // the opening request did not go through: nothing to replay
	}
	if nB < 2 {
		// the transport did not replay (it is allowed not to): the client sees the aborted connection
		r.Count("probe.transport_did_not_replay")
		return
	}
	r.Count("probe.transport_replayed")
	if errB != nil || stB != http.StatusOK || gerr != nil || !bytes.Equal(got, bodyB) {
		r.Failf("content", "transport-replay/"+algoName(algo), "request replayed by the transport after the connection died: the handler read %d bytes (err=%v), the client was given %d bytes (%s); status %d, client error %v", len(got), gerr, len(bodyB), algoName(algo), stB, sanitize(errB, port))
	}
}

// dataEOFReader reads b in chunks and returns the last chunk together with io.EOF (the io.Reader contract allows it).
// xorReader: the "proprietary" coding of the custom decoder: every byte XOR 0x5a.
type xorReader struct{ rc io.ReadCloser }

func (x xorReader) Read(p []byte) (int, error) {
	n, err := x.rc.Read(p)
	for i := 0; i < n; i++ {
		p[i] ^= 0x5a
	}
	return n, err
}
func (x xorReader) Close() error { return x.rc.Close() }

// runC16TwoServers: two servers built in one process from equal compression_algorithms lists. Server A registers a
// custom decoder through WithDecoder - under a new name, or under the name of a built-in coding; server B registers
// nothing. What A was given is A's business: A decodes the custom coding; B refuses a name it never enabled before its
// handler runs, and decodes the built-in coding of that name as every other server does.
func runC16TwoServers(r *simkit.Run) {
	tp := r.Tape
	name := []string{"x-sim-proprietary", "snappy", "gzip", "zstd"}[tp.Weighted(3, 1, 1, 1)]
	builtin := name != "x-sim-proprietary"
	bFirst := tp.Chance(1, 4)
	custom := tp.Chance(1, 2)
	var list []string
	if custom {
		list = []string{"", "gzip", "snappy", "zstd"}
		if tp.Chance(1, 2) {
			list = append(list, "lz4")
		}
	}
	body := makeBody(tp, []string{"text", "random"}[tp.Draw(2)], tp.Range(1, 5000))
	r.Sample = map[string]any{"mode": "two-servers", "custom_decoder_name": name, "plain_server_built_first": bFirst, "custom_algorithm_list": list, "body_len": len(body)}
	r.Logf("two servers name=%q bFirst=%v list=%v body=%d", name, bFirst, list, len(body))
	r.Count("probe.two_servers_one_with_a_custom_decoder")
	type seen struct {
		got []byte
		err error
		ran bool
	}
	var mu sync.Mutex
	sa, sb := &seen{}, &seen{}
	mkHandler := func(sn *seen) http.Handler {
		return http.HandlerFunc(func(w http.ResponseWriter, req *http.Request) {
			b, err := io.ReadAll(req.Body)
			mu.Lock()
			sn.got, sn.err, sn.ran = b, err, true
			mu.Unlock()
			if err != nil {
				http.Error(w, err.Error(), http.StatusBadRequest)
				return
			}
			w.WriteHeader(http.StatusOK)
		})
	}
	type server struct {
		srv  *http.Server
		addr string
		done chan struct{}
	}
	build := func(h http.Handler, opts ...confighttp.ToServerOption) *server {
		sc := confighttp.NewDefaultServerConfig()
		port, _ := nextPortPair()
		for i := 0; i < 200 && !portsFree(port); i++ {
			port, _ = nextPortPair()
		}
		sc.Endpoint = fmt.Sprintf("127.0.0.1:%d", port)
		sc.TLSSetting = nil
		if list != nil {
			sc.CompressionAlgorithms = append([]string(nil), list...) // equal lists, not the same slice
		}
		srv, err := sc.ToServer(context.Background(), componenttest.NewNopHost(), componenttest.NewNopTelemetrySettings(), h, opts...)
		if err != nil {
			panic(err)
		}
		srv.SetKeepAlivesEnabled(false)
		ln, err := sc.ToListener(context.Background())
		if err != nil {
			return nil
		}
		x := &server{srv: srv, addr: ln.Addr().String(), done: make(chan struct{})}
		go func() { _ = srv.Serve(ln); close(x.done) }()
		return x
	}
	dec := confighttp.WithDecoder(name, func(rc io.ReadCloser) (io.ReadCloser, error) { return xorReader{rc}, nil })
	var a, b *server
	if bFirst {
		b = build(mkHandler(sb))
		a = build(mkHandler(sa), dec)
	} else {
		a = build(mkHandler(sa), dec)
		b = build(mkHandler(sb))
	}
	defer func() {
		for _, x := range []*server{a, b} {
			if x != nil {
				_ = x.srv.Close()
				<-x.done
			}
		}
	}()
	if a == nil || b == nil {
		r.Count("probe.infra_socket_unavailable")
		time.Sleep(200 * time.Millisecond)
		return
	}
	xored := make([]byte, len(body))
	for i := range body {
		xored[i] = body[i] ^ 0x5a
	}
	raw := func(addr string, wire []byte) (int, error) {
		req, err := http.NewRequest(http.MethodPost, "http://"+addr+"/", bytes.NewReader(wire))
		if err != nil {
			panic(err)
		}
		req.Header.Set("Content-Encoding", name)
		req.Close = true
		cl := &http.Client{Timeout: 10 * time.Second}
		resp, err := cl.Do(req)
		if err != nil {
			return 0, err
		}
		_, _ = io.Copy(io.Discard, resp.Body)
		_ = resp.Body.Close()
		return resp.StatusCode, nil
	}
	infra := func(err error) bool {
		return err != nil && (strings.Contains(err.Error(), "cannot assign requested address") || strings.Contains(err.Error(), "address already in use"))
	}
	// 1. A decodes what it was told to decode
	stA, errA := raw(a.addr, xored)
	simkit.Beat()
	if infra(errA) {
		r.Count("probe.infra_socket_unavailable")
		return
	}
	mu.Lock()
	gotA := *sa
	mu.Unlock()
	if errA != nil || stA != http.StatusOK || !gotA.ran || gotA.err != nil || !bytes.Equal(gotA.got, body) {
		r.Failf("content", "custom-decoder/own-server", "the server that registered a decoder for %q: status %d err %v, handler ran=%v read %d bytes (err=%v), the body was %d bytes", name, stA, errA, gotA.ran, len(gotA.got), gotA.err, len(body))
	}
	// 2. B never enabled the custom coding
	if !builtin {
		stB, errB := raw(b.addr, xored)
		simkit.Beat()
		if infra(errB) {
			r.Count("probe.infra_socket_unavailable")
			return
		}
		mu.Lock()
		ranB := sb.ran
		mu.Unlock()
		if ranB {
			r.Failf("reject", "handler-ran-for-another-servers-decoder", "server B never enabled %q (another server of the process registered it through WithDecoder); its handler ran all the same (status %d)", name, stB)
		} else if errB == nil && (stB < 400 || stB >= 500) {
			r.Failf("reject", "status-for-another-servers-decoder", "server B never enabled %q; it answered %d, not a client error", name, stB)
		}
	} else {
		// B decodes the built-in coding of that name: a compressing client sends the body
		cc := confighttp.NewDefaultClientConfig()
		cc.Endpoint = "http://" + b.addr
		cc.Compression = configcompression.Type(name)
		cc.Timeout = 10 * time.Second
		client, err := cc.ToClient(context.Background(), componenttest.NewNopHost(), componenttest.NewNopTelemetrySettings())
		if err != nil {
			panic(err)
		}
		defer client.CloseIdleConnections()
		req, err := http.NewRequest(http.MethodPost, cc.Endpoint+"/", bytes.NewReader(body))
		if err != nil {
			panic(err)
		}
		req.Close = true
		resp, errB := client.Do(req)
		simkit.Beat()
		if infra(errB) {
			r.Count("probe.infra_socket_unavailable")
			return
		}
		stB := 0
		if errB == nil {
			stB = resp.StatusCode
			_, _ = io.Copy(io.Discard, resp.Body)
			_ = resp.Body.Close()
		}
		mu.Lock()
		gotB := *sb
		mu.Unlock()
		if errB != nil || stB != http.StatusOK || !gotB.ran || gotB.err != nil || !bytes.Equal(gotB.got, body) {
			r.Failf("content", "round-trip-next-to-a-server-that-overrides/"+name, "server B (no custom decoder; another server of the process overrides %q) and a client compressing with %s: status %d err %v, handler ran=%v read %d bytes (err=%v), the client was given %d bytes", name, name, stB, errB, gotB.ran, len(gotB.got), gotB.err, len(body))
		}
	}
	r.Events += 2
	r.Nontrivial = true
	r.State(fmt.Sprintf("two-servers name=%s bFirst=%v custom=%v", name, bFirst, custom), "request")
}

type dataEOFReader struct {
	b     []byte
	chunk int
}

func (d *dataEOFReader) Read(p []byte) (int, error) {
	if len(d.b) == 0 {
		return 0, io.EOF
	}
	n := d.chunk
	if n > len(p) {
		n = len(p)
	}
	if n >= len(d.b) {
		n = copy(p, d.b)
		d.b = d.b[n:]
		if len(d.b) == 0 {
			return n, io.EOF
		}
		return n, nil
	}
	copy(p, d.b[:n])
	d.b = d.b[n:]
	return n, nil
}

func runC16(r *simkit.Run) {
	tp := r.Tape
	// every run starts with empty sync.Pools (two collections): what a run observes depends on its own requests only,
	// never on what earlier runs of the same worker process left in package-level pools of the middleware
	runtime.GC()
	runtime.GC()
	if tp.Chance(1, 6) {
		runC16Overlap(r)
		return
	}
	if tp.Chance(1, 12) {
		runC16Replay(r)
		return
	}
	if tp.Chance(1, 12) {
		runC16RawHeader(r)
		return
	}
	if tp.Chance(1, 12) {
		runC16PreEncoded(r)
		return
	}
	if tp.Chance(1, 14) {
		runC16TwoServers(r)
		return
	}
	cfg := c16Cfg{}
	cfg.Algo = c16Algos[tp.Draw(len(c16Algos))]
	switch cfg.Algo {
	case "gzip", "zlib", "deflate":
		cfg.Level = []int{0, 1, 6, 9, -2}[tp.Draw(5)] // 0 = default
	case "zstd":
		cfg.Level = []int{0, 1, 3, 11}[tp.Draw(4)]
	}
	// enabled decoders: the documented default, or a custom list (which always keeps "" so that plain requests pass)
	dropEmpty := false
	if tp.Chance(1, 3) {
		cfg.Enabled = []string{""}
		for _, a := range c16Algos[1:] {
			if tp.Chance(1, 2) {
				cfg.Enabled = append(cfg.Enabled, a)
			}
		}
		if tp.Chance(1, 10) {
			cfg.Enabled = cfg.Enabled[1:]
			dropEmpty = true
			if len(cfg.Enabled) == 0 {
				cfg.Enabled = []string{"gzip"}
			}
		}
	}
	cfg.Limit = []int64{0, 1, 100, 1000, 4096, 65536, 70000}[tp.Draw(7)]
	limit := cfg.Limit
	if limit == 0 {
		limit = 20 * 1024 * 1024
	}
	cfg.BodyKind = []string{"zeros", "text", "random"}[tp.Draw(3)]
	// sizes: empty, tiny, around the limit, around codec block sizes, and bombs (highly compressible, far above the limit)
	switch tp.Draw(8) {
	case 0:
		cfg.BodyLen = 0
	case 1:
		cfg.BodyLen = tp.Range(1, 64)
	case 2:
		cfg.BodyLen = int(min64(limit, 1<<20)) - 1
	case 3:
		cfg.BodyLen = int(min64(limit, 1<<20))
	case 4:
		cfg.BodyLen = int(min64(limit, 1<<20)) + 1
	case 5:
		cfg.BodyLen = []int{4095, 4096, 4097, 65535, 65536, 65537, 131072}[tp.Draw(7)]
	case 6:
		cfg.BodyLen = tp.Range(100, 5000)
	default:
		cfg.BodyLen = int(min64(limit, 1<<18))*tp.Range(2, 8) + tp.Draw(3)
	}
	if cfg.BodyLen < 0 {
		cfg.BodyLen = 0
	}
	cfg.Chunk = []int{1, 2, 7, 64, 1000, 4096, 65536}[tp.Draw(7)]
	if cfg.BodyLen > 200000 && cfg.Chunk < 64 {
		cfg.Chunk = 64
	}
	if tp.Chance(1, 8) {
		cfg.Truncate = tp.Range(1, 400+cfg.BodyLen/2)
	}
	cfg.UnknownLength = tp.Chance(1, 3)
	cfg.DataWithEOF = cfg.UnknownLength && tp.Chance(1, 2)
	if tp.Chance(1, 3) {
		cfg.Prelude = []int{1, 700, 5000, 70000, 140000}[tp.Draw(5)]
		if tp.Chance(1, 3) {
			cfg.PreludeCut = tp.Range(150, 300+cfg.Prelude/3)
		}
	}
	cfg.HandlerBuf = []int{1, 3, 512, 32768}[tp.Draw(4)]
	if cfg.BodyLen > 100000 && cfg.HandlerBuf < 512 {
		cfg.HandlerBuf = 512
	}
	r.Sample = cfg
	r.Logf("case %+v", cfg)
	body := makeBody(tp, cfg.BodyKind, cfg.BodyLen)

	// ---- server
	var got []byte
	var readErr error
	handlerRan := false
	sawEncoding := ""
	var hmu sync.Mutex
	var hwg sync.WaitGroup // handlers still running (http.Server.Close does not wait for them)
	epoch := 0
	handler := http.HandlerFunc(func(w http.ResponseWriter, req *http.Request) {
		hwg.Add(1)
		defer hwg.Done()
		hmu.Lock()
		my := epoch
		handlerRan = true
		sawEncoding = req.Header.Get("Content-Encoding")
		hmu.Unlock()
		buf := make([]byte, cfg.HandlerBuf)
		var mine []byte
		var myErr error
		for {
			n, err := req.Body.Read(buf)
			mine = append(mine, buf[:n]...)
			if err != nil {
				if err != io.EOF {
					myErr = err
				}
				break
			}
			if len(mine) > int(limit)+(1<<20) {
				break // far beyond the limit already: stop reading, the oracle will complain
			}
		}
		hmu.Lock()
		if my == epoch {
			got, readErr = mine, myErr
		}
		hmu.Unlock()
		if myErr != nil {
			http.Error(w, myErr.Error(), http.StatusBadRequest)
			return
		}
		w.WriteHeader(http.StatusOK)
	})
	sc := confighttp.NewDefaultServerConfig()
	port, _ := nextPortPair()
	for i := 0; i < 200 && !portsFree(port); i++ {
		port, _ = nextPortPair()
	}
	sc.Endpoint = fmt.Sprintf("127.0.0.1:%d", port)
	sc.TLSSetting = nil // plain HTTP: TLS is not part of the property
	sc.MaxRequestBodySize = cfg.Limit
	if cfg.Enabled != nil {
		sc.CompressionAlgorithms = cfg.Enabled
	}
	srv, err := sc.ToServer(context.Background(), componenttest.NewNopHost(), componenttest.NewNopTelemetrySettings(), handler)
	if err != nil {
		panic(err)
	}
	// The server closes each connection after its response, so that it is the server side (not an ephemeral client
	// port) that lingers in TIME_WAIT: tens of thousands of runs per minute would otherwise exhaust the port range.
	srv.SetKeepAlivesEnabled(false)
	ln, err := sc.ToListener(context.Background())
	if err != nil {
		// no socket to be had right now (port range busy): an infrastructure condition, not a property violation
		r.Count("probe.infra_socket_unavailable")
		r.Logf("skipped: %v", sanitize(err, port))
		time.Sleep(200 * time.Millisecond)
		return
	}
	cl := &chunkListener{Listener: ln, chunk: cfg.Chunk, truncate: cfg.Truncate}
	done := make(chan struct{})
	go func() { _ = srv.Serve(cl); close(done) }()
	defer func() {
		_ = srv.Close()
		<-done
	}()

	// ---- client
	cc := confighttp.NewDefaultClientConfig()
	cc.Endpoint = "http://" + ln.Addr().String()
	cc.Compression = configcompression.Type(cfg.Algo)
	cc.CompressionParams = configcompression.CompressionParams{Level: configcompression.Level(cfg.Level)}
	cc.Timeout = 20 * time.Second
	if err := cc.Validate(); err != nil {
		panic("harness: invalid client config: " + err.Error())
	}
	client, err := cc.ToClient(context.Background(), componenttest.NewNopHost(), componenttest.NewNopTelemetrySettings())
	if err != nil {
		panic(err)
	}
	defer client.CloseIdleConnections()
	if cfg.Prelude > 0 {
		r.Count("probe.prelude_request")
		cl.setTruncate(cfg.PreludeCut)
		pre := makeBody(tp, []string{"text", "random"}[tp.Draw(2)], cfg.Prelude)
		if resp, err := client.Post(cc.Endpoint+"/", "application/octet-stream", bytes.NewReader(pre)); err == nil {
			_, _ = io.Copy(io.Discard, resp.Body)
			_ = resp.Body.Close()
		}
		// the handler of the prelude may still be running when the client gives up on a cut stream: wait for the
		// server to be idle by asking it for one trivial exchange? (not needed: every connection is closed after its
		// response and the handler state below is reset under the same mutex the handler uses)
		time.Sleep(20 * time.Millisecond)
		hmu.Lock()
		got, readErr, handlerRan, sawEncoding = nil, nil, false, ""
		epoch++
		hmu.Unlock()
		cl.setTruncate(cfg.Truncate)
	}
	r.Events++
	simkit.Beat()
	var rd io.Reader = bytes.NewReader(body)
	if cfg.UnknownLength {
		// a body whose length the client cannot know in advance: sent with chunked transfer encoding, no Content-Length
		rd = io.MultiReader(rd)
		r.Count("probe.request_without_content_length")
		if cfg.DataWithEOF {
			rd = &dataEOFReader{b: body, chunk: 2048}
		}
	}
	resp, perr := client.Post(cc.Endpoint+"/", "application/octet-stream", rd)
	status := 0
	if perr != nil {
		// keep the ephemeral port out of messages and logs (replay compares the event log)
		perr = fmt.Errorf("%s", strings.ReplaceAll(perr.Error(), ln.Addr().String(), "ADDR"))
	}
	if perr != nil && (strings.Contains(perr.Error(), "cannot assign requested address") || strings.Contains(perr.Error(), "address already in use")) {
		r.Count("probe.infra_socket_unavailable")
		r.Logf("skipped: %v", perr)
		_ = srv.Close()
		<-done
		time.Sleep(200 * time.Millisecond)
		return
	}
	if perr == nil {
		status = resp.StatusCode
		_, _ = io.Copy(io.Discard, resp.Body)
		_ = resp.Body.Close()
	}
	simkit.Beat()
	// make sure the handler has finished (the server closes the connection on errors before the handler returns, and
	// Close does not wait for handler goroutines)
	_ = srv.Close()
	<-done
	idle := make(chan struct{})
	go func() { hwg.Wait(); close(idle) }()
	select {
	case <-idle:
	case <-time.After(10 * time.Second):
		r.Count("probe.infra_handler_still_running")
		r.Logf("skipped: a handler was still running 10 s after the server was closed")
		return
	}
	// (all handlers have returned: their writes happen-before this point through the WaitGroup)
	r.Logf("status=%d clientErr=%v handlerRan=%v got=%d bytes readErr=%v", status, perr != nil, handlerRan, len(got), readErr != nil)

	// ---- oracle
	enabled := cfg.Enabled
	if enabled == nil {
		enabled = c16Algos
	}
	algoEnabled := false
	for _, e := range enabled {
		if e == cfg.Algo || (cfg.Algo == "deflate" && e == "deflate") {
			algoEnabled = true
		}
	}
	r.Nontrivial = cfg.Algo != "" || cfg.Truncate > 0
	if cfg.Truncate > 0 {
		r.Count("fault.stream_truncated")
	}
	if cfg.Chunk <= 7 {
		r.Count("fault.tiny_read_chunks")
	}
	if int64(len(got)) > limit {
		r.Failf("limit", "read-beyond-max-request-body-size/"+algoName(cfg.Algo), "the handler read %d bytes, max_request_body_size is %d (client sent %d bytes, %s)", len(got), limit, len(body), algoName(cfg.Algo))
	}
	if !bytes.HasPrefix(body, got) {
		r.Failf("content", "not-a-prefix/"+algoName(cfg.Algo), "the handler read %d bytes that are not a prefix of the %d bytes the client was given (%s)", len(got), len(body), algoName(cfg.Algo))
	}
	if dropEmpty && cfg.Algo == "" {
		r.Count("probe.plain_request_with_empty_encoding_disabled")
		return
	}
	if !algoEnabled {
		r.Count("probe.encoding_not_enabled")
		if cfg.Truncate == 0 {
			if handlerRan {
				r.Failf("reject", "handler-ran-for-disabled-encoding", "content encoding %q is not enabled but the handler ran", cfg.Algo)
			}
			if perr == nil && (status < 400 || status > 499) {
				r.Failf("reject", "status", "content encoding %q is not enabled, response status is %d", cfg.Algo, status)
			}
		}
		return
	}
	if cfg.Truncate > 0 {
		return // prefix and limit clauses above are what can be said about a cut stream
	}
	// size of the body as it travelled (compressed), from the Content-Length the client sent
	wire := int64(-1)
	for _, line := range strings.Split(string(cl.lastHead()), "\r\n") {
		if strings.HasPrefix(strings.ToLower(line), "content-length:") {
			fmt.Sscanf(strings.TrimSpace(line[len("content-length:"):]), "%d", &wire)
		}
	}
	if int64(len(body)) <= limit && wire > limit && cfg.Algo != "" {
		// the body fits, its compressed form does not
		r.Count("probe.compressed_form_larger_than_limit")
		if !bytes.Equal(got, body) || readErr != nil {
			r.Failf("content", "compressed-form-larger-than-limit", "the body has %d bytes (limit %d) but its %s encoding has %d bytes and the request was refused (status %d, handler read %d bytes, err=%v)", len(body), limit, cfg.Algo, wire, status, len(got), readErr)
		}
		return
	}
	if int64(len(body)) <= limit {
		if !handlerRan {
			r.Failf("content", "handler-not-run", "an acceptable request (%d bytes, %s) did not reach the handler: status %d err %v", len(body), algoName(cfg.Algo), status, perr)
		} else if !bytes.Equal(got, body) || readErr != nil {
			r.Failf("content", "round-trip/"+algoName(cfg.Algo), "the handler read %d bytes (err=%v), the client was given %d bytes (%s level %d)", len(got), readErr, len(body), algoName(cfg.Algo), cfg.Level)
		}
		if handlerRan && sawEncoding != "" {
			r.Failf("content", "content-encoding-left", "the handler still sees Content-Encoding %q after decompression", sawEncoding)
		}
	} else {
		r.Count("probe.body_over_limit")
		if handlerRan && readErr == nil {
			r.Failf("limit", "oversize-body-read-without-error/"+algoName(cfg.Algo), "the body has %d bytes, the limit is %d, yet the handler read to EOF without an error (%d bytes)", len(body), limit, len(got))
		}
	}
	r.State(fmt.Sprintf("algo=%s over=%v trunc=%v", cfg.Algo, int64(len(body)) > limit, cfg.Truncate > 0), "request")
}

func algoName(a string) string {
	if a == "" {
		return "none"
	}
	return strings.ToLower(a)
}

func min64(a, b int64) int64 {
	if a < b {
		return a
	}
	return b
}

var HarnessC16 = simkit.Harness{
	Prop: "C16", Name: "svc/c16", Run: runC16, NoBubble: true, StepTimeout: 60e9, RateLimit: 40,
	Real: []string{"confighttp.ClientConfig.ToClient (compression round-tripper, every algorithm and level)", "confighttp.ServerConfig.ToServer (decompressor, max-body interceptors, enabled-decoder list)", "net/http client and server over kernel loopback TCP"},
	Stub: []string{"listener wrapper owned by the simulator: the server's reads are cut into tape-drawn chunk sizes (1 B .. 64 KiB) and optionally fail after N bytes (never a sleep)", "innermost handler reading with a tape-drawn buffer size"},
	Rule: "one run = (1 run in 6) overlap mode: 0-4 earlier requests, then three requests whose handlers are held in the middle of their bodies until all got there, through one server and one client, handler optionally closing the body itself, every handler must read its own bytes; in half of these runs one more request of 6 or 12 MB is answered by its (full-duplex) handler after the first kilobyte and read to the end only after all the others, while its client call has long returned; or (1 in 14) two servers built from equal algorithm lists, one of which registers a custom decoder (a new name, or the name of a built-in coding) - the other must refuse the new name before its handler runs and decode the built-in coding as ever; otherwise one request: tape-drawn algorithm (none, gzip, zlib, deflate, zstd, snappy, lz4) and level, enabled-decoder list (default or custom), max_request_body_size (default, 1, 100, 1000, 4096, 65536, 70000), body (zeros / text / incompressible; empty, tiny, limit-1, limit, limit+1, codec block sizes, bombs of 2-8x the limit), server read chunk size, optional truncation of the stream, handler buffer size; runs outside the synctest bubble on real loopback sockets (real time, no virtual clock: the property does not depend on timing; one request at a time); distinct = distinct event-log hash; non-trivial = a compressed or truncated request",
}
