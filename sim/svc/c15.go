package verifsim

import (
	"bytes"
	"context"
	"errors"
	"fmt"
	"io"
	"net"
	"net/http"
	"os"
	"strings"
	"sync"
	"time"

	"google.golang.org/genproto/googleapis/rpc/errdetails"
	spb "google.golang.org/genproto/googleapis/rpc/status"
	"google.golang.org/grpc/codes"
	"google.golang.org/grpc/status"
	"google.golang.org/protobuf/types/known/anypb"
	"google.golang.org/protobuf/types/known/durationpb"

	"go.opentelemetry.io/collector/component"
	"go.opentelemetry.io/collector/component/componenttest"
	"go.opentelemetry.io/collector/config/configauth"
	"go.opentelemetry.io/collector/config/configcompression"
	"go.opentelemetry.io/collector/config/confighttp"
	"go.opentelemetry.io/collector/config/configopaque"
	"go.opentelemetry.io/collector/config/configtls"
	"go.opentelemetry.io/collector/consumer"
	"go.opentelemetry.io/collector/consumer/consumererror"
	"go.opentelemetry.io/collector/consumer/xconsumer"
	"go.opentelemetry.io/collector/exporter"
	"go.opentelemetry.io/collector/exporter/otlpexporter"
	"go.opentelemetry.io/collector/exporter/otlphttpexporter"
	"go.opentelemetry.io/collector/exporter/xexporter"
	"go.opentelemetry.io/collector/pdata/plog"
	"go.opentelemetry.io/collector/pdata/pmetric"
	"go.opentelemetry.io/collector/pdata/pprofile"
	"go.opentelemetry.io/collector/pdata/ptrace"
	"go.opentelemetry.io/collector/receiver"
	"go.opentelemetry.io/collector/receiver/otlpreceiver"
	"go.opentelemetry.io/collector/receiver/xreceiver"
	"verif.local/simkit"
	"verif.local/simkit/gen"
)

// ---- C15: OTLP exporter -> OTLP receiver hop ------------------------------------------------------------------

type authStub struct {
	component.StartFunc
	component.ShutdownFunc
}

func (authStub) Authenticate(ctx context.Context, sources map[string][]string) (context.Context, error) {
	for k, v := range sources {
		if strings.EqualFold(k, "authorization") && len(v) == 1 && v[0] == "Bearer s3cr3t" {
			return ctx, nil
		}
	}
	return ctx, errors.New("sim: missing or wrong credentials")
}

type extHost struct {
	ext map[component.ID]component.Component
}

func (h extHost) GetExtensions() map[component.ID]component.Component { return h.ext }

// Ports come from a per-worker slice of 10000-31999 (below the kernel's ephemeral range, so that neither another
// worker nor an outgoing connection can grab one between choosing and binding); binding is retried on the next pair.
var portSeq int

func nextPortPair() (int, int) {
	w := 0
	fmt.Sscanf(os.Getenv("VERIF_WORKER"), "%d", &w)
	base := 10000 + (w%22)*1000
	portSeq++
	off := (portSeq * 2) % 1000
	return base + off, base + off + 1
}

func portsFree(ports ...int) bool {
	for _, p := range ports {
		l, err := net.Listen("tcp", fmt.Sprintf("127.0.0.1:%d", p))
		if err != nil {
			return false
		}
		_ = l.Close()
	}
	return true
}

type c15Cfg struct {
	Mode        string `json:"mode"` // hop | raw
	Signal      string `json:"signal"`
	Transport   string `json:"transport"` // grpc | http-proto | http-json
	Compression string `json:"compression"`
	// Level: compression_params.level of the HTTP exporter (0 = the codec's default); Bulk: size of one large
	// attribute value added to the payload (0 = none), so that the request spans several codec blocks
	Level   int    `json:"compression_level,omitempty"`
	Bulk    int    `json:"bulk_attribute_bytes,omitempty"`
	Outcome string `json:"consumer_outcome"`
	// Msg: what the consumer's error message looks like (ascii, utf8, invalid-utf8, long, empty); it must not change
	// what the failure means to the sender
	Msg string `json:"consumer_error_message,omitempty"`
	// Details: what else the consumer's status carries besides an optional RetryInfo - details of other types (a type
	// linked into the binary, a type that is not: statuses relayed from other systems), before and/or after it
	Details string `json:"other_status_details,omitempty"`
	RetryMs int    `json:"retry_info_ms"` // -1 = no RetryInfo
	Auth    bool   `json:"server_authenticator"`
	Creds   bool   `json:"client_sends_credentials"`
	Rich    string `json:"payload_enrichment,omitempty"`
	Prelude string `json:"earlier_request,omitempty"` // "", "accepted", "refused"
	// Concurrent: instead of one judged request, this many requests with different payloads are sent at the same time
	// through the one exporter; the consumer holds every call until all have arrived (or 2 s), accepts the even ones and
	// refuses the odd ones. Each payload must arrive once, unchanged, and each sender must see its own outcome.
	Concurrent int    `json:"concurrent_requests,omitempty"`
	Empty      bool   `json:"empty_payload"`
	Raw        string `json:"raw_request,omitempty"`
}

// The OTLP specification's gRPC table: which codes a client may retry.
func specGRPCRetryable(c codes.Code, hasRetryInfo bool) bool {
	switch c {
	case codes.Canceled, codes.DeadlineExceeded, codes.Aborted, codes.OutOfRange, codes.Unavailable, codes.DataLoss:
		return true
	case codes.ResourceExhausted:
		return hasRetryInfo
	}
	return false
}

var allCodes = []codes.Code{codes.Canceled, codes.Unknown, codes.InvalidArgument, codes.DeadlineExceeded, codes.NotFound, codes.AlreadyExists,
	codes.PermissionDenied, codes.ResourceExhausted, codes.FailedPrecondition, codes.Aborted, codes.OutOfRange, codes.Unimplemented, codes.Internal,
	codes.Unavailable, codes.DataLoss, codes.Unauthenticated}

// addBulkAttribute puts one large string attribute on the first resource of the payload (if it has one).
func addBulkAttribute(sig string, payload any, v string) {
	switch sig {
	case sigLogs:
		if x := payload.(plog.Logs).ResourceLogs(); x.Len() > 0 {
			x.At(0).Resource().Attributes().PutStr("bulk", v)
		}
	case sigTraces:
		if x := payload.(ptrace.Traces).ResourceSpans(); x.Len() > 0 {
			x.At(0).Resource().Attributes().PutStr("bulk", v)
		}
	case sigProfiles:
		if x := payload.(pprofile.Profiles).ResourceProfiles(); x.Len() > 0 {
			x.At(0).Resource().Attributes().PutStr("bulk", v)
		}
	default:
		if x := payload.(pmetric.Metrics).ResourceMetrics(); x.Len() > 0 {
			x.At(0).Resource().Attributes().PutStr("bulk", v)
		}
	}
}

// c15Conc: the consumer side of the concurrent mode. A call is matched to the request it belongs to by its bytes, held
// until every request has arrived (or 2 s), and answered with that request's own outcome.
type c15Conc struct {
	mu      sync.Mutex
	sent    [][]byte
	outcome []error
	calls   []int
	unknown [][]byte
	arrived int
	all     chan struct{}
}

func (c *c15Conc) sink(b []byte) error {
	c.mu.Lock()
	idx := -1
	for i := range c.sent {
		if bytes.Equal(c.sent[i], b) {
			idx = i
			break
		}
	}
	if idx >= 0 {
		c.calls[idx]++
	} else {
		c.unknown = append(c.unknown, b)
	}
	c.arrived++
	if c.arrived == len(c.sent) {
		close(c.all)
	}
	c.mu.Unlock()
	select {
	case <-c.all:
	case <-time.After(2 * time.Second):
	}
	if idx < 0 {
		return nil
	}
	return c.outcome[idx]
}

func runC15(r *simkit.Run) {
	tp := r.Tape
	cfg := c15Cfg{Signal: drawSignal(tp), RetryMs: -1}
	if tp.Chance(1, 4) {
		cfg.Mode = "raw"
	} else {
		cfg.Mode = "hop"
	}
	cfg.Transport = []string{"grpc", "http-proto", "http-json"}[tp.Draw(3)]
	if cfg.Transport == "grpc" {
		cfg.Compression = []string{"none", "gzip", "snappy", "zstd"}[tp.Draw(4)]
	} else {
		cfg.Compression = []string{"none", "gzip", "zstd", "snappy", "zlib", "deflate", "lz4"}[tp.Draw(7)]
	}
	var outcome error
	var code codes.Code = codes.OK
	cfg.Msg = []string{"ascii", "utf8", "invalid-utf8", "long", "empty"}[tp.Weighted(12, 1, 1, 1, 1)]
	msgOf := func(base string) string {
		switch cfg.Msg {
		case "utf8":
			return base + " r\u00e9sum\u00e9 \u2713 \U0001F600"
		case "invalid-utf8":
			return base + " raw bytes \xff\xfe\x80 in the message"
		case "long":
			return base + " " + strings.Repeat("very long explanation ", 500)
		case "empty":
			return ""
		}
		return base
	}
	switch tp.Weighted(3, 1, 1, 4) {
	case 0:
		cfg.Outcome = "accept"
		cfg.Msg = ""
	case 1:
		cfg.Outcome = "permanent"
		outcome = consumererror.NewPermanent(errors.New(msgOf("sim consumer: permanent")))
	case 2:
		cfg.Outcome = "transient"
		outcome = errors.New(msgOf("sim consumer: transient"))
	default:
		code = allCodes[tp.Draw(len(allCodes))]
		st := status.New(code, msgOf("sim consumer: status"))
		if tp.Chance(1, 2) {
			cfg.RetryMs = []int{0, 500, 2000, 61000}[tp.Draw(4)]
			st2, err := st.WithDetails(&errdetails.RetryInfo{RetryDelay: durationpb.New(time.Duration(cfg.RetryMs) * time.Millisecond)})
			if err != nil {
				panic(err)
			}
			st = st2
		}
		if tp.Chance(1, 3) {
			// other details around the RetryInfo (or without one): they must not change what the status means
			known, _ := anypb.New(&errdetails.ErrorInfo{Reason: "SIM", Domain: "sim.example"})
			foreign := &anypb.Any{TypeUrl: "type.googleapis.com/acme.quota.v1.QuotaViolation", Value: []byte{0x0a, 0x03, 'a', 'b', 'c'}}
			kinds := map[string]*anypb.Any{"known": known, "foreign": foreign}
			pr := st.Proto()
			var before, after []*anypb.Any
			for _, k := range []string{"known", "foreign"} {
				switch tp.Draw(3) {
				case 1:
					before = append(before, kinds[k])
					cfg.Details += k + "-before "
				case 2:
					after = append(after, kinds[k])
					cfg.Details += k + "-after "
				}
			}
			pr = &spb.Status{Code: pr.GetCode(), Message: pr.GetMessage(), Details: append(append(before, pr.GetDetails()...), after...)}
			st = status.FromProto(pr)
		}
		cfg.Outcome = "status:" + code.String()
		outcome = st.Err()
		if tp.Chance(1, 5) {
			// the same status one level down an error chain (a pipeline component adding context with %w)
			cfg.Outcome = "status-wrapped:" + code.String()
			outcome = fmt.Errorf("sim pipeline component: %w", st.Err())
		} else if tp.Chance(1, 4) {
			// the same status inside a permanent error (what an OTLP exporter further down the pipeline returns for a
			// non-retryable response): still "a consumer error carrying an explicit gRPC status"
			cfg.Outcome = "status-in-permanent:" + code.String()
			outcome = consumererror.NewPermanent(st.Err())
		}
	}
	cfg.Prelude = []string{"", "accepted", "refused"}[tp.Weighted(4, 1, 1)]
	cfg.Auth = tp.Chance(1, 4)
	cfg.Creds = !cfg.Auth || tp.Chance(2, 3)
	cfg.Empty = tp.Chance(1, 10)
	if cfg.Mode == "raw" {
		cfg.Raw = []string{"bad-body", "wrong-content-type", "wrong-method", "no-credentials", "empty-payload"}[tp.Draw(5)]
		if cfg.Raw == "no-credentials" {
			cfg.Auth = true
		}
	}
	if cfg.Mode == "hop" && !cfg.Empty && (!cfg.Auth || cfg.Creds) && tp.Chance(1, 6) {
		cfg.Concurrent = tp.Range(2, 6)
	}
	r.Sample = cfg
	r.Logf("case %+v", cfg)
	r.Count("probe.signal/" + cfg.Signal)

	// ---- receiver
	authID := component.MustNewIDWithName("simauth", "a")
	host := extHost{ext: map[component.ID]component.Component{authID: authStub{}}}
	pg, ph := nextPortPair()
	for i := 0; i < 200 && !portsFree(pg, ph); i++ {
		pg, ph = nextPortPair()
	}
	rf := otlpreceiver.NewFactory()
	rcfg := rf.CreateDefaultConfig().(*otlpreceiver.Config)
	rcfg.GRPC.NetAddr.Endpoint = fmt.Sprintf("127.0.0.1:%d", pg)
	rcfg.HTTP.ServerConfig.Endpoint = fmt.Sprintf("127.0.0.1:%d", ph)
	if cfg.Auth {
		rcfg.GRPC.Auth = &configauth.Authentication{AuthenticatorID: authID}
		rcfg.HTTP.ServerConfig.Auth = &confighttp.AuthConfig{Authentication: configauth.Authentication{AuthenticatorID: authID}}
	}
	var mu sync.Mutex
	sinkCalls := 0
	var sinkBytes []byte
	p := pd{sig: cfg.Signal}
	var conc *c15Conc
	sink := func(x any) error {
		mu.Lock()
		cc := conc
		mu.Unlock()
		if cc != nil {
			return cc.sink(p.bytes(x))
		}
		mu.Lock()
		defer mu.Unlock()
		sinkCalls++
		sinkBytes = p.bytes(x)
		return outcome
	}
	rset := receiver.Settings{ID: component.MustNewID("otlp"), TelemetrySettings: componenttest.NewNopTelemetrySettings(), BuildInfo: component.NewDefaultBuildInfo()}
	var rcv component.Component
	var err error
	switch cfg.Signal {
	case sigLogs:
		next, _ := consumer.NewLogs(func(_ context.Context, ld plog.Logs) error { return sink(ld) })
		rcv, err = rf.CreateLogs(context.Background(), rset, rcfg, next)
	case sigTraces:
		next, _ := consumer.NewTraces(func(_ context.Context, td ptrace.Traces) error { return sink(td) })
		rcv, err = rf.CreateTraces(context.Background(), rset, rcfg, next)
	case sigProfiles:
		next, _ := xconsumer.NewProfiles(func(_ context.Context, pf pprofile.Profiles) error { return sink(pf) })
		rcv, err = rf.(xreceiver.Factory).CreateProfiles(context.Background(), rset, rcfg, next)
	default:
		next, _ := consumer.NewMetrics(func(_ context.Context, md pmetric.Metrics) error { return sink(md) })
		rcv, err = rf.CreateMetrics(context.Background(), rset, rcfg, next)
	}
	if err != nil {
		panic(err)
	}
	rctx, rStarted := simkit.StartContext(tp)
	if err := rcv.Start(rctx, host); err != nil {
		// no socket to be had right now: an infrastructure condition, not a property violation
		r.Count("probe.infra_socket_unavailable")
		r.Logf("skipped: receiver start: %v", sanitize(err, pg, ph))
		_ = rcv.Shutdown(context.Background())
		time.Sleep(200 * time.Millisecond)
		return
	}
	rStarted()
	rcvDown := false
	stopReceiver := func() {
		if !rcvDown {
			rcvDown = true
			_ = rcv.Shutdown(context.Background())
		}
	}
	defer stopReceiver()
	simkit.Beat()

	ids := &gen.IDs{Prefix: "i"}
	var payload any
	if cfg.Empty || cfg.Raw == "empty-payload" {
		switch cfg.Signal {
		case sigLogs:
			payload = plog.NewLogs()
		case sigTraces:
			payload = ptrace.NewTraces()
		case sigProfiles:
			payload = pprofile.NewProfiles()
		default:
			payload = pmetric.NewMetrics()
		}
	} else {
		payload = gen.Shape{MaxResources: 2, MaxScopes: 2, MaxMetrics: 2, MaxItems: 3, NonEmpty: true}.Gen(tp, ids, cfg.Signal)
		if tp.Chance(2, 3) {
			// the whole data model, not only the generator's small alphabet: every attribute value kind, ids, flags,
			// timestamps, events, links, exemplars, histogram details (1 in 8: also non-finite doubles)
			cfg.Rich = "rich"
			extreme := tp.Chance(1, 8)
			if extreme {
				cfg.Rich = "rich+non-finite-doubles"
			}
			gen.Enrich(tp, payload, extreme)
			if tp.Chance(1, 3) {
				// and whatever else the public pdata API lets a producer set: a seeded walk over the object graph found
				// by reflection, calling setters with generated arguments (never the empty-bytes constructors: a Bytes
				// value without content has the wire form of an absent value)
				cfg.Rich += "+reflective-setters"
				reflectProgramExcl(payload, int64(tp.Draw(1<<30)), "r\u00e9fl", 20, nil, []string{"EmptyBytes"})
			}
			r.Sample = cfg
		}
	}
	if cfg.Transport != "grpc" {
		switch cfg.Compression {
		case "gzip", "zlib", "deflate":
			cfg.Level = []int{0, 1, 6, 9, -2}[tp.Draw(5)]
		case "zstd":
			cfg.Level = []int{0, 1, 3, 6, 11}[tp.Draw(5)]
		}
	}
	if !cfg.Empty && cfg.Mode != "raw" && tp.Chance(1, 10) {
		cfg.Bulk = []int{140000, 300000, 1200000}[tp.Draw(3)]
		var sb strings.Builder
		seed := uint32(tp.Draw(1 << 30))
		for sb.Len() < cfg.Bulk {
			seed = seed*1664525 + 1013904223
			fmt.Fprintf(&sb, "%08x ", seed) // hardly compressible text
		}
		addBulkAttribute(cfg.Signal, payload, sb.String()[:cfg.Bulk])
	}
	r.Sample = cfg
	sent := p.bytes(payload)
	r.Events++

	if cfg.Mode == "raw" {
		runC15Raw(r, cfg, ph, sent, &mu, &sinkCalls)
		return
	}

	// ---- exporter
	eset := exporter.Settings{ID: component.MustNewID("otlp"), TelemetrySettings: componenttest.NewNopTelemetrySettings(), BuildInfo: component.NewDefaultBuildInfo()}
	headers := map[string]configopaque.String{}
	if cfg.Auth && cfg.Creds {
		headers["authorization"] = "Bearer s3cr3t"
	}
	comp := configcompression.Type(cfg.Compression)
	if cfg.Compression == "none" {
		comp = configcompression.Type("none")
	}
	var exp component.Component
	var send func(ctx context.Context) error
	var sendP func(ctx context.Context, pl any) error
	var pe xexporter.Profiles
	mk := func(l exporter.Logs, t exporter.Traces, m exporter.Metrics) {
		switch cfg.Signal {
		case sigProfiles:
			exp, sendP = pe, func(ctx context.Context, pl any) error { return pe.ConsumeProfiles(ctx, pl.(pprofile.Profiles)) }
		case sigLogs:
			exp, sendP = l, func(ctx context.Context, pl any) error { return l.ConsumeLogs(ctx, pl.(plog.Logs)) }
		case sigTraces:
			exp, sendP = t, func(ctx context.Context, pl any) error { return t.ConsumeTraces(ctx, pl.(ptrace.Traces)) }
		default:
			exp, sendP = m, func(ctx context.Context, pl any) error { return m.ConsumeMetrics(ctx, pl.(pmetric.Metrics)) }
		}
		send = func(ctx context.Context) error { return sendP(ctx, payload) }
	}
	if cfg.Transport == "grpc" {
		ef := otlpexporter.NewFactory()
		ecfg := ef.CreateDefaultConfig().(*otlpexporter.Config)
		ecfg.ClientConfig.Endpoint = fmt.Sprintf("127.0.0.1:%d", pg)
		ecfg.ClientConfig.TLSSetting = configtls.ClientConfig{Insecure: true}
		ecfg.ClientConfig.Compression = comp
		ecfg.ClientConfig.Headers = headers
		ecfg.RetryConfig.Enabled = false
		ecfg.QueueConfig.Enabled = false
		ecfg.TimeoutConfig.Timeout = 10 * time.Second
		var l exporter.Logs
		var t exporter.Traces
		var m exporter.Metrics
		switch cfg.Signal {
		case sigLogs:
			l, err = ef.CreateLogs(context.Background(), eset, ecfg)
		case sigTraces:
			t, err = ef.CreateTraces(context.Background(), eset, ecfg)
		case sigProfiles:
			pe, err = ef.(xexporter.Factory).CreateProfiles(context.Background(), eset, ecfg)
		default:
			m, err = ef.CreateMetrics(context.Background(), eset, ecfg)
		}
		mk(l, t, m)
	} else {
		ef := otlphttpexporter.NewFactory()
		eset.ID = component.MustNewID("otlphttp")
		ecfg := ef.CreateDefaultConfig().(*otlphttpexporter.Config)
		ecfg.ClientConfig.Endpoint = fmt.Sprintf("http://127.0.0.1:%d", ph)
		ecfg.ClientConfig.Compression = comp
		ecfg.ClientConfig.CompressionParams = configcompression.CompressionParams{Level: configcompression.Level(cfg.Level)}
		ecfg.ClientConfig.Headers = headers
		ecfg.ClientConfig.Timeout = 10 * time.Second
		ecfg.RetryConfig.Enabled = false
		ecfg.QueueConfig.Enabled = false
		if cfg.Transport == "http-json" {
			ecfg.Encoding = otlphttpexporter.EncodingJSON
		}
		var l exporter.Logs
		var t exporter.Traces
		var m exporter.Metrics
		switch cfg.Signal {
		case sigLogs:
			l, err = ef.CreateLogs(context.Background(), eset, ecfg)
		case sigTraces:
			t, err = ef.CreateTraces(context.Background(), eset, ecfg)
		case sigProfiles:
			pe, err = ef.(xexporter.Factory).CreateProfiles(context.Background(), eset, ecfg)
		default:
			m, err = ef.CreateMetrics(context.Background(), eset, ecfg)
		}
		mk(l, t, m)
	}
	if err != nil {
		panic(fmt.Sprintf("exporter create: %v", err))
	}
	ectx, eStarted := simkit.StartContext(tp)
	if err := exp.Start(ectx, host); err != nil {
		panic(fmt.Sprintf("exporter start: %v", err))
	}
	eStarted()
	defer func() { _ = exp.Shutdown(context.Background()) }()
	simkit.Beat()
	if cfg.Prelude != "" {
		// an earlier request through the same exporter and receiver (other content; accepted, or refused with a
		// transient error): connections, streams, pooled codecs and buffers are then in a used state; only the
		// second request is judged
		r.Count("probe.prelude_request")
		judged, judgedOutcome := payload, outcome
		payload = gen.Shape{MaxResources: 2, MaxScopes: 2, MaxMetrics: 2, MaxItems: 4, NonEmpty: true}.Gen(tp, ids, cfg.Signal)
		gen.Enrich(tp, payload, false)
		outcome = nil
		if cfg.Prelude == "refused" {
			outcome = errors.New("sim consumer: transient (earlier request)")
		}
		_ = send(context.Background())
		mu.Lock()
		sinkCalls, sinkBytes = 0, nil
		mu.Unlock()
		payload, outcome = judged, judgedOutcome
		simkit.Beat()
	}
	if cfg.Concurrent > 0 {
		r.Count("probe.concurrent_requests")
		cc := &c15Conc{all: make(chan struct{})}
		var pls []any
		for i := 0; i < cfg.Concurrent; i++ {
			pl := gen.Shape{MaxResources: 2, MaxScopes: 2, MaxMetrics: 2, MaxItems: 4, NonEmpty: true}.Gen(tp, ids, cfg.Signal)
			gen.Enrich(tp, pl, false)
			if i == 1 && tp.Chance(1, 3) {
				addBulkAttribute(cfg.Signal, pl, strings.Repeat("bulk attribute of the second concurrent request ", 3000))
			}
			pls = append(pls, pl)
			cc.sent = append(cc.sent, p.bytes(pl))
			var o error
			if i%2 == 1 {
				o = errors.New("sim consumer: transient (odd concurrent request)")
			}
			cc.outcome = append(cc.outcome, o)
		}
		cc.calls = make([]int, len(pls))
		mu.Lock()
		conc = cc
		mu.Unlock()
		errs := make([]error, len(pls))
		var wg sync.WaitGroup
		for i := range pls {
			wg.Add(1)
			go func(i int) {
				defer wg.Done()
				errs[i] = sendP(context.Background(), pls[i])
			}(i)
		}
		wg.Wait()
		simkit.Beat()
		stopReceiver()
		r.Events += len(pls)
		r.Nontrivial = true
		for _, e := range errs {
			if e != nil && (strings.Contains(e.Error(), "cannot assign requested address") || strings.Contains(e.Error(), "address already in use")) {
				r.Count("probe.infra_socket_unavailable")
				time.Sleep(200 * time.Millisecond)
				return
			}
		}
		cc.mu.Lock()
		defer cc.mu.Unlock()
		loc := cfg.Transport
		if len(cc.unknown) > 0 {
			r.Failf("delivery", "concurrent/payload-differs/"+cfg.Transport+"/"+cfg.Signal, "%d requests sent at the same time (%s %s): the consumer received a payload of %d bytes that is none of those sent: %s", len(pls), cfg.Transport, cfg.Compression, len(cc.unknown[0]), p.json(cc.unknown[0]))
		}
		for i := range pls {
			if cc.calls[i] != 1 {
				r.Failf("delivery", fmt.Sprintf("concurrent/consumer-called-%d-times/%s", cc.calls[i], loc), "%d requests sent at the same time: the payload of request %d reached the consumer %d times (sender saw %v)", len(pls), i, cc.calls[i], sanitize(errs[i], pg, ph))
				continue
			}
			if cc.outcome[i] == nil && errs[i] != nil {
				r.Failf("result", "concurrent/accepted-but-error/"+loc, "%d requests sent at the same time: the consumer accepted request %d but its sender got %v", len(pls), i, sanitize(errs[i], pg, ph))
			}
			if cc.outcome[i] != nil && errs[i] == nil {
				r.Failf("result", "concurrent/refused-but-success/"+loc, "%d requests sent at the same time: the consumer refused request %d but its sender got success", len(pls), i)
			}
			if cc.outcome[i] != nil && errs[i] != nil && consumererror.IsPermanent(errs[i]) {
				r.Failf("classification", "concurrent/retryable-became-permanent/"+loc, "%d requests sent at the same time: the transient refusal of request %d reached its sender as a permanent error: %v", len(pls), i, sanitize(errs[i], pg, ph))
			}
		}
		r.State(fmt.Sprintf("%s concurrent=%d", cfg.Transport, len(pls)), "send")
		return
	}
	serr := send(context.Background())
	simkit.Beat()
	if serr != nil && (strings.Contains(serr.Error(), "cannot assign requested address") || strings.Contains(serr.Error(), "address already in use")) {
		r.Count("probe.infra_socket_unavailable")
		r.Logf("skipped: %v", sanitize(serr, pg, ph))
		time.Sleep(200 * time.Millisecond)
		return
	}
	// The receiver goes first so that the server side closes the connections (see C16: keeps ephemeral client ports
	// out of TIME_WAIT).
	stopReceiver()
	mu.Lock()
	calls, got := sinkCalls, sinkBytes
	mu.Unlock()
	perm := serr != nil && consumererror.IsPermanent(serr)
	throttle, tdelay := parseThrottle(serr)
	r.Logf("exporter result: err=%v permanent=%v throttle=%v(%s) sink calls=%d", serr != nil, perm, throttle, tdelay, calls)
	r.Nontrivial = cfg.Outcome != "accept" || cfg.Compression != "none"
	if cfg.Outcome != "accept" {
		r.Count("fault.consumer_" + strings.SplitN(cfg.Outcome, ":", 2)[0])
	}
	loc := cfg.Transport

	// ---- oracle
	if cfg.Auth && !cfg.Creds {
		r.Count("fault.missing_credentials")
		if calls != 0 {
			r.Failf("auth", "consumer-reached-unauthenticated/"+loc, "an unauthenticated request reached the consumer")
		}
		if serr == nil {
			r.Failf("auth", "unauthenticated-accepted/"+loc, "an unauthenticated request was reported as success")
		} else if !perm {
			r.Failf("auth", "unauthenticated-retryable/"+loc, "an unauthenticated request is classified as retryable: %v", sanitize(serr, pg, ph))
		}
		return
	}
	if len(sent) == 0 || cfg.Empty || p.itemCount(payload) == 0 {
		r.Count("probe.empty_payload")
		if calls != 0 {
			r.Failf("empty", "consumer-invoked/"+loc, "a request without items invoked the consumer")
		}
		if serr != nil {
			r.Failf("empty", "not-acknowledged/"+loc, "a request without items was answered with %v", sanitize(serr, pg, ph))
		}
		return
	}
	if calls != 1 {
		r.Failf("delivery", fmt.Sprintf("consumer-called-%d-times/%s", calls, loc), "the consumer behind the receiver was invoked %d times (exporter result %v)", calls, sanitize(serr, pg, ph))
		return
	}
	if !bytes.Equal(got, sent) {
		r.Failf("delivery", "payload-differs/"+cfg.Transport+"/"+cfg.Signal, "the payload that reached the consumer differs from the one sent (%d vs %d bytes, %s %s); sent %s; received %s", len(got), len(sent), cfg.Transport, cfg.Compression, p.json(sent), p.json(got))
	}
	if outcome == nil {
		if serr != nil {
			r.Failf("result", "accepted-but-error/"+loc, "the consumer accepted the data but the exporter reports %v", sanitize(serr, pg, ph))
		}
		return
	}
	if serr == nil {
		r.Failf("result", "refused-but-success/"+loc, "the consumer refused the data (%s) but the exporter reports success", cfg.Outcome)
		return
	}
	// what the failure means on the receiving side
	hasRI := cfg.RetryMs >= 0
	var wantRetry bool
	switch {
	case code != codes.OK:
		wantRetry = specGRPCRetryable(code, hasRI)
		if cfg.Transport != "grpc" && code == codes.ResourceExhausted {
			wantRetry = true // travels as HTTP 429, which the HTTP table always allows to retry
		}
	case cfg.Outcome == "permanent":
		wantRetry = false
	default:
		wantRetry = true
	}
	if wantRetry && perm {
		r.Failf("classification", "retryable-became-permanent/"+loc+"/"+cfg.Outcome, "consumer outcome %s is retryable but the exporter classifies the failure as permanent: %v", cfg.Outcome, sanitize(serr, pg, ph))
	}
	if !wantRetry && !perm {
		r.Failf("classification", "permanent-became-retryable/"+loc+"/"+cfg.Outcome, "consumer outcome %s must not be retried but the exporter classifies the failure as retryable: %v", cfg.Outcome, sanitize(serr, pg, ph))
	}
	// the status itself travels over gRPC
	if cfg.Transport == "grpc" && code != codes.OK {
		if st, ok := status.FromError(unwrapAll(serr)); !ok || st.Code() != code {
			r.Failf("status", "grpc-code-changed/"+code.String(), "the consumer answered with gRPC status %s, the exporter saw %v", code, sanitize(serr, pg, ph))
		}
	}
	// throttling delay
	if wantRetry && hasRI {
		want := time.Duration(cfg.RetryMs) * time.Millisecond
		if cfg.Transport != "grpc" {
			want = want / time.Second * time.Second // Retry-After carries whole seconds
		}
		switch {
		case cfg.Transport == "grpc" && want == 0:
			// zero delay: plain retryable
		case !throttle:
			r.Failf("throttle", "delay-dropped/"+loc, "the consumer asked for a retry delay of %s; the exporter's error carries no throttling delay: %v", want, sanitize(serr, pg, ph))
		case tdelay != want.String():
			r.Failf("throttle", "delay-changed/"+loc, "the consumer asked for a retry delay of %s, the exporter will wait %s", want, tdelay)
		}
	}
	if throttle && !hasRI {
		r.Failf("throttle", "invented/"+loc, "no retry delay was requested but the exporter reports throttling (%s)", tdelay)
	}
	r.State(fmt.Sprintf("%s %s retry=%v", cfg.Transport, strings.SplitN(cfg.Outcome, ":", 2)[0], wantRetry), "send")
}

func unwrapAll(err error) error {
	for {
		if _, ok := status.FromError(err); ok {
			if _, isStatus := err.(interface{ GRPCStatus() *status.Status }); isStatus {
				return err
			}
		}
		u := errors.Unwrap(err)
		if u == nil {
			return err
		}
		err = u
	}
}

func parseThrottle(err error) (bool, string) {
	if err == nil {
		return false, ""
	}
	s := err.Error()
	i := strings.Index(s, "Throttle (")
	if i < 0 {
		return false, ""
	}
	rest := s[i+len("Throttle ("):]
	j := strings.Index(rest, ")")
	if j < 0 {
		return true, "?"
	}
	return true, rest[:j]
}

func sanitize(err error, ports ...int) string {
	if err == nil {
		return "nil"
	}
	s := err.Error()
	for _, p := range ports {
		s = strings.ReplaceAll(s, fmt.Sprint(p), "PORT")
	}
	if len(s) > 300 {
		s = s[:300] + "…"
	}
	return s
}

func runC15Raw(r *simkit.Run, cfg c15Cfg, ph int, sent []byte, mu *sync.Mutex, sinkCalls *int) {
	path := map[string]string{sigLogs: "/v1/logs", sigTraces: "/v1/traces", sigMetrics: "/v1/metrics", sigProfiles: "/v1development/profiles"}[cfg.Signal]
	url := fmt.Sprintf("http://127.0.0.1:%d%s", ph, path)
	method, ctype, body := http.MethodPost, "application/x-protobuf", sent
	// the same media type spelled with a parameter or in another letter case is still that media type
	variant := r.Tape.Draw(4)
	spell := func(ct string) string {
		switch variant {
		case 1:
			return ct + "; charset=utf-8"
		case 2:
			return strings.ToUpper(ct[:1]) + ct[1:12] + strings.ToUpper(ct[12:13]) + ct[13:]
		case 3:
			return ct + " ;  q=1"
		}
		return ct
	}
	var hdr = map[string]string{}
	if cfg.Auth && cfg.Raw != "no-credentials" {
		hdr["Authorization"] = "Bearer s3cr3t"
	}
	want := 0
	switch cfg.Raw {
	case "bad-body":
		body = []byte{0xff, 0xff, 0xff, 0x01, 0x02, 0x03, 0x04}
		if cfg.Transport == "http-json" {
			ctype, body = "application/json", []byte(`{"resource`)
		}
		ctype = spell(ctype)
		want = 400
	case "wrong-content-type":
		ctype = "text/plain"
		want = 415
	case "wrong-method":
		method = http.MethodGet
		want = 405
	case "no-credentials":
		ctype = spell(ctype)
		want = 401
	case "empty-payload":
		ctype = spell(ctype)
		want = 200
	}
	r.Logf("raw content type %q", ctype)
	r.Count("fault.raw_" + cfg.Raw)
	r.Nontrivial = true
	req, err := http.NewRequest(method, url, bytes.NewReader(body))
	if err != nil {
		panic(err)
	}
	req.Close = true // ask the server to close the connection after the response
	req.Header.Set("Content-Type", ctype)
	for k, v := range hdr {
		req.Header.Set(k, v)
	}
	cl := &http.Client{Timeout: 10 * time.Second}
	defer cl.CloseIdleConnections()
	resp, err := cl.Do(req)
	if err != nil && (strings.Contains(err.Error(), "cannot assign requested address") || strings.Contains(err.Error(), "address already in use")) {
		r.Count("probe.infra_socket_unavailable")
		time.Sleep(200 * time.Millisecond)
		return
	}
	if err != nil {
		r.Failf("raw", "request-failed/"+cfg.Raw, "raw request failed: %v", sanitize(err, ph))
		return
	}
	_, _ = io.Copy(io.Discard, resp.Body)
	_ = resp.Body.Close()
	mu.Lock()
	calls := *sinkCalls
	mu.Unlock()
	r.Logf("raw %s -> %d (consumer calls %d)", cfg.Raw, resp.StatusCode, calls)
	if resp.StatusCode != want {
		r.Failf("raw", fmt.Sprintf("status/%s", cfg.Raw), "%s request answered with %d, expected %d", cfg.Raw, resp.StatusCode, want)
	}
	if calls != 0 {
		r.Failf("raw", "consumer-invoked/"+cfg.Raw, "a %s request reached the consumer", cfg.Raw)
	}
}

var HarnessC15 = simkit.Harness{
	Prop: "C15", Name: "svc/c15", Run: runC15, NoBubble: true, StepTimeout: 60e9, RateLimit: 40,
	Real: []string{"otlpreceiver (gRPC and HTTP servers, created by its factory)", "otlpexporter (gRPC) and otlphttpexporter (protobuf and JSON), created by their factories on top of exporterhelper", "configgrpc / confighttp / configauth middleware incl. server-side authentication and every supported compression", "pdata request wrappers and codecs", "kernel loopback TCP"},
	Stub: []string{"consumer behind the receiver (accepts / permanent / transient / gRPC status of each code with or without RetryInfo)", "server authenticator extension (expects a bearer token)", "raw HTTP client for malformed requests"},
	Rule: "one run = one request through one hop: tape-drawn signal, generated payload (or an empty one), transport (gRPC, HTTP/protobuf, HTTP/JSON), compression, consumer outcome (accept, permanent, transient, gRPC status of each of 16 codes with/without RetryInfo of 0/0.5/2/61 s, 1 in 3 with details of other types - one linked into the binary, one not - before and/or after it), server authenticator on/off with/without client credentials; or a raw malformed HTTP request (bad body, wrong content type, wrong method, missing credentials, empty payload); retries and queues are off, one request at a time - or (1 hop run in 6) 2-6 requests with different payloads at the same time through the one exporter, held by the consumer until all have arrived, the even ones accepted and the odd ones refused, each payload must arrive once and unchanged and each sender must see its own outcome; runs outside the synctest bubble on real loopback sockets; the OTLP specification's gRPC and HTTP status tables are written out in the oracle; distinct = distinct event-log hash; non-trivial = a refusing consumer, compression or a malformed request",
}
