package verifsim

import (
	"context"
	"errors"
	"fmt"
	"runtime"
	"sort"
	"strings"
	"sync"
	"sync/atomic"
	"time"

	"go.opentelemetry.io/collector/client"
	"go.opentelemetry.io/collector/component"
	"go.opentelemetry.io/collector/component/componenttest"
	"go.opentelemetry.io/collector/consumer"
	"go.opentelemetry.io/collector/pdata/plog"
	"go.opentelemetry.io/collector/pdata/pmetric"
	"go.opentelemetry.io/collector/pdata/ptrace"
	"go.opentelemetry.io/collector/processor"
	"go.opentelemetry.io/collector/processor/batchprocessor"
	"verif.local/simkit"
	"verif.local/simkit/gen"
)

// ---- C17: batch processor ------------------------------------------------------------------------------------

type c17Cfg struct {
	Signal   string   `json:"signal"`
	TimeoutS int      `json:"timeout_s"`
	Size     int      `json:"send_batch_size"`
	Max      int      `json:"send_batch_max_size"`
	Keys     []string `json:"metadata_keys"`
	Limit    int      `json:"metadata_cardinality_limit"`
	Prods    int      `json:"producers"`
	Steps    int      `json:"steps"`
	SinkPlan string   `json:"sink_plan"` // per call: o=ok e=error p=park
}

type c17Batch struct {
	n      int
	items  map[string]string
	deep   map[string]string
	group  string // metadata values seen in the batch context
	at     time.Time
	parked bool
}

type c17Item struct {
	fp       string
	deep     string // hash of the complete single-item form (gen.DeepItems)
	group    string
	accepted time.Time
	inA      bool // its Consume had returned nil when shutdown began
	req      int
}

type c17Sim struct {
	r           *simkit.Run
	cfg         c17Cfg
	gate        *simkit.Gate
	mu          sync.Mutex
	calls       []*c17Batch
	items       map[string]*c17Item
	emitted     map[string]int
	ids         *gen.IDs
	groupsSeen  map[string]bool
	parkedSince map[string]bool // groups whose sink call is/was parked while items were pending
	shut        *simkit.Task
	shutFired   bool
}

func c17Config(tp *simkit.Tape) c17Cfg {
	c := c17Cfg{Signal: signals[tp.Draw(3)]}
	c.TimeoutS = []int{0, 1, 5, 10}[tp.Weighted(1, 2, 2, 1)]
	c.Size = tp.Draw(9)
	if tp.Chance(1, 2) {
		c.Max = c.Size + tp.Draw(7)
		if c.Max == 0 {
			c.Max = tp.Draw(7)
		}
	}
	switch tp.Weighted(3, 2, 1) {
	case 1:
		c.Keys = []string{"tenant"}
	case 2:
		c.Keys = []string{"Tenant", "region"}
	}
	if len(c.Keys) > 0 {
		c.Limit = tp.Draw(4)
	}
	c.Prods = tp.Range(1, 4)
	c.Steps = tp.Range(6, 40)
	var sb strings.Builder
	slow := tp.Chance(1, 3)
	for i := 0; i < 60; i++ {
		w := tp.Weighted(8, 1, 0)
		if slow {
			w = tp.Weighted(5, 1, 3)
		}
		sb.WriteByte("oep"[w])
	}
	c.SinkPlan = sb.String()
	return c
}

func groupOf(keys []string, md map[string][]string) string {
	var parts []string
	for _, k := range keys {
		parts = append(parts, fmt.Sprintf("%s=%q", strings.ToLower(k), md[strings.ToLower(k)]))
	}
	sort.Strings(parts)
	return strings.Join(parts, ";")
}

func (s *c17Sim) sink(ctx context.Context, payload any) error {
	p := pd{sig: s.cfg.Signal}
	deep := gen.DeepItems(payload)
	var items map[string]string
	switch s.cfg.Signal {
	case sigLogs:
		items = gen.LogItems(payload.(plog.Logs))
	case sigTraces:
		items = gen.SpanItems(payload.(ptrace.Traces))
	default:
		items = gen.PointItems(payload.(pmetric.Metrics))
	}
	_ = p
	info := client.FromContext(ctx)
	md := map[string][]string{}
	for _, k := range s.cfg.Keys {
		md[strings.ToLower(k)] = info.Metadata.Get(k)
	}
	s.mu.Lock()
	n := len(s.calls) + 1
	b := &c17Batch{n: n, items: items, deep: deep, group: groupOf(s.cfg.Keys, md), at: time.Now()}
	plan := byte('o')
	if n-1 < len(s.cfg.SinkPlan) {
		plan = s.cfg.SinkPlan[n-1]
	}
	b.parked = plan == 'p'
	s.calls = append(s.calls, b)
	s.mu.Unlock()
	switch plan {
	case 'e':
		s.r.Count("fault.downstream_error")
		return errStubConsume
	case 'p':
		s.r.Count("fault.downstream_slow")
		v := s.gate.Park(fmt.Sprintf("sink:%03d", n))
		if v != nil {
			return v.(error)
		}
	}
	return nil
}

// shardQueueLen: the capacity of a shard's input queue in the batch processor (one slot per CPU).
var shardQueueLen = runtime.NumCPU()

// trapCtx is a caller's context whose Err() may park once before answering.
type trapCtx struct {
	context.Context
	park func()
	once sync.Once
}

func (c *trapCtx) Err() error {
	if c.park != nil {
		c.once.Do(c.park)
	}
	return c.Context.Err()
}

func runC17(r *simkit.Run) {
	tp := r.Tape
	cfg := c17Config(tp)
	r.Sample = cfg
	r.Logf("config %+v", cfg)
	begin := time.Now()
	s := &c17Sim{r: r, cfg: cfg, gate: simkit.NewGate(), items: map[string]*c17Item{}, emitted: map[string]int{}, ids: &gen.IDs{Prefix: "i"},
		groupsSeen: map[string]bool{}, parkedSince: map[string]bool{}}
	f := batchprocessor.NewFactory()
	pc := f.CreateDefaultConfig().(*batchprocessor.Config)
	pc.Timeout = time.Duration(cfg.TimeoutS) * time.Second
	pc.SendBatchSize = uint32(cfg.Size)
	pc.SendBatchMaxSize = uint32(cfg.Max)
	pc.MetadataKeys = cfg.Keys
	pc.MetadataCardinalityLimit = uint32(cfg.Limit)
	if err := pc.Validate(); err != nil {
		// the generator respects max >= size; anything else is a harness problem
		panic("harness: invalid batch processor config: " + err.Error())
	}
	set := processor.Settings{ID: component.MustNewID("batch"), TelemetrySettings: componenttest.NewNopTelemetrySettings(), BuildInfo: component.NewDefaultBuildInfo()}
	var proc component.Component
	var consume func(ctx context.Context, payload any) error
	var err error
	switch cfg.Signal {
	case sigLogs:
		next, _ := consumer.NewLogs(func(ctx context.Context, ld plog.Logs) error { return s.sink(ctx, ld) })
		var p processor.Logs
		p, err = f.CreateLogs(context.Background(), set, pc, next)
		proc, consume = p, func(ctx context.Context, x any) error { return p.ConsumeLogs(ctx, x.(plog.Logs)) }
	case sigTraces:
		next, _ := consumer.NewTraces(func(ctx context.Context, td ptrace.Traces) error { return s.sink(ctx, td) })
		var p processor.Traces
		p, err = f.CreateTraces(context.Background(), set, pc, next)
		proc, consume = p, func(ctx context.Context, x any) error { return p.ConsumeTraces(ctx, x.(ptrace.Traces)) }
	default:
		next, _ := consumer.NewMetrics(func(ctx context.Context, md pmetric.Metrics) error { return s.sink(ctx, md) })
		var p processor.Metrics
		p, err = f.CreateMetrics(context.Background(), set, pc, next)
		proc, consume = p, func(ctx context.Context, x any) error { return p.ConsumeMetrics(ctx, x.(pmetric.Metrics)) }
	}
	if err != nil {
		panic(err)
	}
	// Lock-site yields (build-time instrumentation, tools/lockinst.py): a producer that is about to take the batcher's
	// mutex may be parked there - it holds no lock - so that another producer's arrival is processed first. Which
	// arrival parks comes from a mask drawn in advance. The scheduler goroutine itself never parks.
	yg := simkit.NewGate()
	var lockMask uint64
	var lockSeen int
	var inSched, quiet atomic.Bool
	if lockInstrumented && len(cfg.Keys) > 0 && tp.Chance(1, 2) {
		lockMask = uint64(tp.Draw(1<<16)) | uint64(tp.Draw(1<<16))<<16
	}
	setBatchLockYield(func(site string) {
		if lockMask == 0 || inSched.Load() || quiet.Load() || !strings.HasSuffix(site, ".consume") {
			return
		}
		s.mu.Lock()
		k := lockSeen
		lockSeen++
		s.mu.Unlock()
		if lockMask>>(uint(k)%32)&1 == 0 {
			return
		}
		r.Count("fault.producer_parked_before_batcher_lock")
		yg.Park(fmt.Sprintf("yield:%s#%d", site, k))
	})
	defer setBatchLockYield(nil)
	inSched.Store(true)
	sctx, started := simkit.StartContext(tp)
	if err := proc.Start(sctx, componenttest.NewNopHost()); err != nil {
		panic(err)
	}
	started()
	inSched.Store(false)
	r.Settle()
	timeout := time.Duration(cfg.TimeoutS) * time.Second
	// one producer task carries one request, or (flood) a row of requests sent one after the other: enough of them to
	// fill the shard's input queue while the next consumer is slow, so that the last ones block on it
	type prodReq struct {
		ids       []string
		grp       string
		err       error
		done      atomic.Bool
		collected bool
		cancel    context.CancelFunc
		cancelled bool
		skipped   bool // never sent
	}
	type prod struct {
		id   int
		task *simkit.Task
		reqs []*prodReq
	}
	prods := make([]*prod, cfg.Prods)
	for i := range prods {
		prods[i] = &prod{id: i}
	}
	nreq := 0
	p := pd{sig: cfg.Signal}
	collect := func() {
		for _, pr := range prods {
			if pr.task == nil {
				continue
			}
			for _, q := range pr.reqs {
				if q.collected || !q.done.Load() {
					continue
				}
				q.collected = true
				err := q.err
				switch {
				case q.skipped:
					for _, id := range q.ids {
						delete(s.items, id)
					}
				case err != nil && q.cancelled && errors.Is(err, context.Canceled):
					// the caller had given up: refused, so none of it may be emitted
					r.Logf("  p%d refused: its context was cancelled", pr.id)
					r.Count("probe.refused_cancelled_caller")
					for _, id := range q.ids {
						delete(s.items, id)
					}
				case err != nil:
					r.Logf("  p%d refused: %s", pr.id, simkit.ShortErr(err))
					// beyond the cardinality limit: the group must be new and the limit reached
					if cfg.Limit == 0 || s.groupsSeen[q.grp] || len(s.groupsSeen) < cfg.Limit {
						r.Failf("cardinality", "spurious-refusal", "request of group %q refused with %v; limit %d, groups so far %d", q.grp, err, cfg.Limit, len(s.groupsSeen))
					}
					r.Count("probe.refused_beyond_cardinality_limit")
					for _, id := range q.ids {
						delete(s.items, id)
					}
				default:
					if cfg.Limit > 0 && !s.groupsSeen[q.grp] && len(s.groupsSeen) >= cfg.Limit {
						r.Failf("cardinality", "limit-exceeded", "request of new group %q accepted although %d groups exist and the limit is %d", q.grp, len(s.groupsSeen), cfg.Limit)
					}
					s.groupsSeen[q.grp] = true
					for _, id := range q.ids {
						s.items[id].accepted = time.Now()
						if !s.shutFired {
							s.items[id].inA = true
						}
					}
				}
			}
			if pr.task.Done() {
				pr.task = nil
				pr.reqs = nil
			}
		}
	}
	// newReq generates one request (payload, model entries) with the given client metadata
	type reqPayload struct {
		q       *prodReq
		ctx     context.Context
		payload any
	}
	newReq := func(pr *prod, md map[string][]string) reqPayload {
		payload := p.gen(tp, s.ids)
		if tp.Chance(1, 3) {
			gen.Enrich(tp, payload, false) // every field of the data model travels through merge and split
		}
		deep := gen.DeepItems(payload)
		q := &prodReq{grp: groupOf(cfg.Keys, md)}
		var items map[string]string
		switch cfg.Signal {
		case sigLogs:
			items = gen.LogItems(payload.(plog.Logs))
		case sigTraces:
			items = gen.SpanItems(payload.(ptrace.Traces))
		default:
			items = gen.PointItems(payload.(pmetric.Metrics))
		}
		nreq++
		for id, fp := range items {
			s.items[id] = &c17Item{fp: fp, deep: deep[id], group: q.grp, req: nreq}
			q.ids = append(q.ids, id)
		}
		sort.Strings(q.ids)
		r.Logf("  request %d: %d items group %q", nreq, len(items), q.grp)
		cctx, cancel := context.WithCancel(client.NewContext(context.Background(), client.Info{Metadata: client.NewMetadata(md)}))
		q.cancel = cancel
		// The caller's context, as far as the processor can tell an ordinary one; when armed, a call of Err() parks
		// once (the caller may then give up before the call returns). The shipped processor never asks.
		tc := &trapCtx{Context: cctx}
		if tp.Chance(1, 3) {
			name := fmt.Sprintf("yield:p%d:ctx.Err#%d", pr.id, nreq)
			tc.park = func() { yg.Park(name) }
		}
		pr.reqs = append(pr.reqs, q)
		return reqPayload{q: q, ctx: tc, payload: payload}
	}
	drawMD := func() map[string][]string {
		md := map[string][]string{}
		if len(cfg.Keys) > 0 {
			md["tenant"] = [][]string{{"a"}, {"b"}, {"a", "b"}, nil, {"b", "a"}, {"a,b"}, {""}}[tp.Weighted(3, 3, 2, 2, 1, 1, 1)]
			if len(cfg.Keys) > 1 {
				md["region"] = [][]string{{"eu"}, {"us"}, nil}[tp.Draw(3)]
			}
		}
		return md
	}
	floods := 0
	var shutFlag atomic.Bool
	for step := 0; step < cfg.Steps && !r.Failed(); step++ {
		var ch []simkit.Choice
		if !s.shutFired {
			for _, pr := range prods {
				if pr.task == nil {
					pr := pr
					ch = append(ch, simkit.Choice{Name: fmt.Sprintf("offer:p%d", pr.id), W: 5, Fire: func() {
						rp := newReq(pr, drawMD())
						pr.task = simkit.Go(fmt.Sprintf("p%d", pr.id), func(t *simkit.Task) {
							rp.q.err = consume(rp.ctx, rp.payload)
							rp.q.done.Store(true)
						})
					}})
					if len(s.gate.Parked()) > 0 && floods < 1 {
						// the next consumer is busy: one producer sends a row of requests of one group, one more than the
						// shard's input queue holds (once per run, and no more than that: a shard that has shut down
						// receives nothing any more, whoever still sends after that would block for ever)
						ch = append(ch, simkit.Choice{Name: fmt.Sprintf("flood:p%d", pr.id), W: 1, Fire: func() {
							floods++
							r.Count("fault.flood_while_next_consumer_is_busy")
							md := drawMD()
							var rps []reqPayload
							for k := 0; k < shardQueueLen+1; k++ {
								rps = append(rps, newReq(pr, md))
							}
							pr.task = simkit.Go(fmt.Sprintf("p%d", pr.id), func(t *simkit.Task) {
								for _, rp := range rps {
									if shutFlag.Load() {
										// nothing is sent to a processor that is shutting down (its shards stop receiving)
										rp.q.skipped = true
										rp.q.done.Store(true)
										continue
									}
									rp.q.err = consume(rp.ctx, rp.payload)
									rp.q.done.Store(true)
								}
							})
						}})
					}
					break
				}
			}
		}
		for _, id := range s.gate.Parked() {
			id := id
			ch = append(ch, simkit.Choice{Name: "sink-ok:" + id, W: 3, Fire: func() { s.gate.Release(id, nil) }})
			ch = append(ch, simkit.Choice{Name: "sink-err:" + id, W: 1, Fire: func() { s.gate.Release(id, errStubConsume) }})
		}
		for _, id := range yg.Parked() {
			id := id
			ch = append(ch, simkit.Choice{Name: "release:" + id, W: 3, Fire: func() { yg.Release(id, nil) }})
		}
		for _, pr := range prods {
			if pr.task == nil || pr.task.Done() {
				continue
			}
			for qi, q := range pr.reqs {
				if !q.done.Load() && !q.cancelled {
					// the caller of the request in progress gives up (first unfinished request of the task)
					q := q
					ch = append(ch, simkit.Choice{Name: fmt.Sprintf("caller-gives-up:p%d#%d", pr.id, qi), W: 1, Fire: func() {
						r.Count("fault.caller_context_cancelled")
						q.cancelled = true
						q.cancel()
					}})
					break
				}
			}
		}
		if timeout > 0 {
			ch = append(ch, simkit.Choice{Name: "advance:timeout", W: 2, Fire: func() { time.Sleep(timeout) }})
			ch = append(ch, simkit.Choice{Name: "advance:half", W: 1, Fire: func() { time.Sleep(timeout / 2) }})
			// (a quarter: instants between "timeout after the oldest pending item" and "timeout after a later arrival")
			ch = append(ch, simkit.Choice{Name: "advance:quarter", W: 1, Fire: func() { time.Sleep(timeout / 4) }})
		}
		if !s.shutFired {
			ch = append(ch, simkit.Choice{Name: "shutdown", W: 1, Fire: func() {
				collect() // producers whose Consume has returned by now are in A
				s.shutFired = true
				shutFlag.Store(true)
				s.shut = simkit.Go("shutdown", func(t *simkit.Task) { t.Err = proc.Shutdown(context.Background()) })
			}})
		}
		ev := r.Pick(ch)
		collect()
		s.observe(ev, timeout)
	}
	quiet.Store(true)
	for i := 0; i < 50 && !r.Failed(); i++ {
		ids := yg.Parked()
		if len(ids) == 0 {
			break
		}
		r.Fire("quiet-release:"+ids[0], func() { yg.Release(ids[0], nil) })
		collect()
		s.observe("quiet", timeout)
	}
	if !s.shutFired {
		r.Fire("shutdown", func() {
			collect()
			s.shutFired = true
			shutFlag.Store(true)
			s.shut = simkit.Go("shutdown", func(t *simkit.Task) { t.Err = proc.Shutdown(context.Background()) })
		})
		collect()
		s.observe("shutdown", timeout)
	}
	for i := 0; i < 200 && !r.Failed() && !s.shut.Done(); i++ {
		ids := s.gate.Parked()
		if len(ids) == 0 {
			break
		}
		r.Fire("quiet-sink-ok:"+ids[0], func() { s.gate.Release(ids[0], nil) })
		collect()
		s.observe("quiet", timeout)
	}
	if !r.Failed() && !s.shut.Done() {
		r.Failf("liveness", "shutdown", "Shutdown did not return although downstream answered every call")
	}
	// release producers that may still be blocked (outside A) so that the bubble can end
	for i := 0; i < 50; i++ {
		r.Settle()
		if s.gate.ReleaseAll(nil)+yg.ReleaseAll(nil) == 0 {
			break
		}
	}
	if !r.Failed() && s.shut.Done() {
		for id, it := range s.items {
			if it.inA && s.emitted[id] == 0 {
				r.Failf("conservation", "accepted-item-never-emitted", "item %s (request %d, group %q) was accepted before shutdown began but had not been emitted when Shutdown returned", id, it.req, it.group)
				break
			}
		}
	}
	r.Virtual = time.Since(begin)
}

func (s *c17Sim) observe(ev string, timeout time.Duration) {
	r := s.r
	cfg := s.cfg
	s.mu.Lock()
	calls := append([]*c17Batch(nil), s.calls...)
	s.mu.Unlock()
	emitted := map[string]int{}
	for _, b := range calls {
		n := 0
		for id, fp := range b.items {
			n++
			it, ok := s.items[id]
			if !ok {
				r.Failf("conservation", "invented-item", "batch %d carries item %s that was never accepted (%s)", b.n, id, fp)
				continue
			}
			emitted[id]++
			if emitted[id] > 1 {
				r.Failf("conservation", "emitted-twice", "item %s emitted %d times (again in batch %d)", id, emitted[id], b.n)
			}
			if it.fp != fp {
				r.Failf("identity", cfg.Signal+":"+strings.Join(gen.DiffFields(it.fp, fp), "+"), "item %s changed context in batch %d: entered as %s, left as %s", id, b.n, it.fp, fp)
			} else if it.deep != "" && b.deep[id] != it.deep {
				r.Failf("identity", cfg.Signal+":content", "item %s left in batch %d with a content or context that differs from what entered (same resource/scope/schema/metric fingerprint; hash of the complete single-item form %s -> %s)", id, b.n, it.deep, b.deep[id])
			}
			if it.group != b.group {
				r.Failf("metadata", "group-mixed-or-wrong-context", "item %s arrived with metadata %q but was sent in batch %d whose context carries %q", id, it.group, b.n, b.group)
			}
		}
		if cfg.Max > 0 && n > cfg.Max {
			r.Failf("size-bound", "max", "batch %d holds %d items, send_batch_max_size is %d", b.n, n, cfg.Max)
		}
		if n > 1 {
			r.Nontrivial = true
		}
	}
	s.emitted = emitted
	// pending per group
	parkedGroups := map[string]bool{}
	for _, id := range s.gate.Parked() {
		var n int
		fmt.Sscanf(id, "sink:%d", &n)
		parkedGroups[calls[n-1].group] = true
	}
	for g := range parkedGroups {
		s.parkedSince[g] = true
	}
	pending := map[string]int{}
	oldest := map[string]time.Time{}
	for id, it := range s.items {
		if it.accepted.IsZero() || emitted[id] > 0 {
			continue
		}
		pending[it.group]++
		if t, ok := oldest[it.group]; !ok || it.accepted.Before(t) {
			oldest[it.group] = it.accepted
		}
	}
	for g := range s.parkedSince {
		if pending[g] == 0 && !parkedGroups[g] {
			delete(s.parkedSince, g)
		}
	}
	if !s.shutFired {
		groups := make([]string, 0, len(pending))
		for g := range pending {
			groups = append(groups, g)
		}
		sort.Strings(groups)
		for _, g := range groups {
			if parkedGroups[g] || s.parkedSince[g] {
				continue // downstream is (or was, since these items arrived) slow for this group: the clauses assume a prompt sink
			}
			n := pending[g]
			immediate := cfg.TimeoutS == 0 || cfg.Size == 0
			if immediate && n > 0 {
				r.Failf("flush", "not-immediate", "%d items of group %q are pending although timeout=%ds send_batch_size=%d means 'send immediately'", n, g, cfg.TimeoutS, cfg.Size)
			}
			if !immediate && n >= cfg.Size {
				r.Failf("flush", "size-trigger", "%d items of group %q are pending, send_batch_size is %d", n, g, cfg.Size)
			}
			if !immediate && time.Since(oldest[g]) > timeout {
				r.Failf("flush", "timeout", "items of group %q have been pending for %s, timeout is %s", g, time.Since(oldest[g]), timeout)
			}
		}
	}
	np := 0
	for _, n := range pending {
		np += n
	}
	r.State(fmt.Sprintf("pending=%d parked=%d groups=%d shut=%v", bucket17(np), len(parkedGroups), len(s.groupsSeen), s.shutFired), evKind(ev))
}

func bucket17(n int) int {
	if n > 8 {
		return 9
	}
	return n
}

var HarnessC17 = simkit.Harness{
	Prop: "C17", Name: "svc/c17", Run: runC17, StepTimeout: 20e9, HashInsensitive: true,
	Real: []string{"batchprocessor factory-built processors for logs, traces and metrics (shards, timer, split*, metadata sharding, cardinality limit)", "client.Info metadata propagation"},
	Stub: []string{"downstream sink following a tape-drawn plan per call (ok / error / park until released)", "producers with client metadata from a small alphabet"},
	Rule: "one run = one tape-drawn configuration accepted by Validate() (timeout, send_batch_size, send_batch_max_size, metadata_keys, cardinality limit), generated payloads with unique item ids from 1-4 concurrent producers with client metadata, a per-call sink plan, and a schedule of offer / flood (once per run, while the sink is busy: one more request than a shard's input queue holds, so the last one blocks) / caller gives up (context cancelled; the context's Err() may park once) / clock advance (timeout, half, quarter) / sink release ok|error / shutdown events, shutdown possible at any step; the conservation, identity, size, grouping and cardinality clauses are checked after every event, the flush clauses only for groups whose sink is not and has not been slow; distinct = distinct event-log hash; non-trivial = a batch with >1 item",
}
