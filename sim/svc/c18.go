package verifsim

import (
	"bytes"
	"context"
	"errors"
	"fmt"
	"runtime"
	"sync"
	"sync/atomic"
	"time"

	"go.opentelemetry.io/collector/component"
	"go.opentelemetry.io/collector/component/componenttest"
	"go.opentelemetry.io/collector/consumer"
	"go.opentelemetry.io/collector/consumer/consumererror"
	"go.opentelemetry.io/collector/extension"
	"go.opentelemetry.io/collector/extension/memorylimiterextension"
	"go.opentelemetry.io/collector/internal/memorylimiter"
	"go.opentelemetry.io/collector/pdata/plog"
	"go.opentelemetry.io/collector/pdata/pmetric"
	"go.opentelemetry.io/collector/pdata/ptrace"
	"go.opentelemetry.io/collector/processor"
	"go.opentelemetry.io/collector/processor/memorylimiterprocessor"
	"verif.local/simkit"
	"verif.local/simkit/gen"
)

// ---- C18: memory limiter -------------------------------------------------------------------------------------

const mib = 1 << 20

type c18Cfg struct {
	CheckS   int  `json:"check_interval_s"`
	SoftGCs  int  `json:"min_gc_interval_when_soft_limited_s"`
	HardGCs  int  `json:"min_gc_interval_when_hard_limited_s"`
	LimitMiB int  `json:"limit_mib"`
	SpikeMiB int  `json:"spike_limit_mib"`
	Percent  bool `json:"percentage_mode"`
	// TotalMiB: what the machine reports as total memory (percentage mode); large totals exercise the arithmetic
	TotalMiB uint64 `json:"total_memory_mib,omitempty"`
	Sharers  int    `json:"processors_sharing_the_limiter"`
	Ext      bool   `json:"extension"`
	Steps    int    `json:"steps"`
	// SpikeUnset: the spike limit of the mode in use is left out (documented default: 20 % of the limit);
	// Leftover: the settings of the OTHER mode are present too (validation accepts that, the mode in use ignores them)
	SpikeUnset bool `json:"spike_limit_unset,omitempty"`
	Leftover   int  `json:"leftover_settings_of_the_other_mode,omitempty"`
	// SlowReads: some memory readings take a while (the checker's goroutine parks inside the reading); start, consume
	// and shutdown calls - also with a context that is already done - arrive while a check is in progress
	SlowReads bool `json:"slow_readings,omitempty"`
	// SlowGC (only in builds with the instrumentation overlay): a forced collection takes half a second of virtual time,
	// and the minimum GC intervals are a multiple of the check interval minus 200 ms, so that some check falls between
	// "interval since the previous collection STARTED" and "interval since it was DONE"
	SlowGC   bool `json:"slow_forced_collections,omitempty"`
	SoftGCms int  `json:"min_gc_interval_when_soft_limited_ms,omitempty"`
	HardGCms int  `json:"min_gc_interval_when_hard_limited_ms,omitempty"`
}

type memScript struct {
	mu       sync.Mutex
	queue    []uint64 // readings to hand out, in order
	fallback uint64
	taken    []uint64 // readings handed out since last reset
	takenAt  []time.Time
	lastAt   []time.Time
	total    int
	// slow readings: the next reading parks its goroutine (the limiter's checker) before it is handed a value, until
	// the scheduler releases it; what the rest of the system does meanwhile is the scheduler's choice
	parkNext bool
	parked   bool
	gate     chan struct{}
}

func (m *memScript) isParked() bool {
	m.mu.Lock()
	defer m.mu.Unlock()
	return m.parked
}

func (m *memScript) release() {
	m.mu.Lock()
	was := m.parked
	m.parked = false
	m.mu.Unlock()
	if was {
		m.gate <- struct{}{}
	}
}

func (m *memScript) read(ms *runtime.MemStats) {
	m.mu.Lock()
	if m.parkNext {
		m.parkNext, m.parked = false, true
		m.mu.Unlock()
		<-m.gate
		m.mu.Lock()
	}
	defer m.mu.Unlock()
	v := m.fallback
	if len(m.queue) > 0 {
		v = m.queue[0]
		m.queue = m.queue[1:]
	}
	m.taken = append(m.taken, v)
	m.takenAt = append(m.takenAt, time.Now()) // virtual instant of the check
	m.total++
	ms.Alloc = v
}

func (m *memScript) set(first, afterGC uint64) {
	m.mu.Lock()
	m.queue = []uint64{first, afterGC}
	m.fallback = afterGC
	m.taken = nil
	m.mu.Unlock()
}

func (m *memScript) takenNow() []uint64 {
	m.mu.Lock()
	defer m.mu.Unlock()
	out := append([]uint64(nil), m.taken...)
	m.lastAt = append([]time.Time(nil), m.takenAt...)
	m.taken, m.takenAt = nil, nil
	return out
}

func runC18(r *simkit.Run) {
	tp := r.Tape
	cfg := c18Cfg{
		CheckS:   []int{1, 2, 5}[tp.Draw(3)],
		LimitMiB: []int{100, 1000}[tp.Draw(2)],
		Sharers:  tp.Range(1, 3),
		Ext:      tp.Chance(1, 3),
		Steps:    tp.Range(6, 40),
		Percent:  tp.Chance(1, 4),
	}
	cfg.SoftGCs = []int{0, 3, 10, 30}[tp.Draw(4)]
	cfg.HardGCs = []int{0, 3, 10}[tp.Draw(3)]
	if cfg.HardGCs > cfg.SoftGCs {
		cfg.HardGCs = cfg.SoftGCs
	}
	cfg.SpikeMiB = cfg.LimitMiB * []int{10, 20, 50}[tp.Draw(3)] / 100
	if tp.Chance(1, 5) {
		// large fixed limits: the MiB values are 32-bit in the configuration, the byte values are not
		cfg.LimitMiB = []int{4097, 10240, 65536, 1 << 22, 1<<32 - 1}[tp.Draw(5)]
		cfg.SpikeMiB = cfg.LimitMiB / 100 * []int{10, 20, 50}[tp.Draw(3)]
		if sp := []int{0, 4095, 4096, 4097, 5120, 8192, 12288}[tp.Draw(7)]; sp > 0 && sp < cfg.LimitMiB {
			cfg.SpikeMiB = sp
		}
	}
	cfg.TotalMiB = 2000
	var pctLimit, pctSpike uint32
	if cfg.Percent {
		cfg.TotalMiB = []uint64{2000, 2000, 8192, 65536, 1 << 20, 1 << 24}[tp.Draw(6)]
		pctLimit = uint32([]int{5, 50, 75, 99}[tp.Draw(4)])
		pctSpike = uint32([]int{1, 10, 25, 40}[tp.Draw(4)])
		if pctSpike >= pctLimit {
			pctSpike = pctLimit - 1
		}
		if pctSpike == 0 {
			pctSpike = 1
		}
	}
	cfg.SpikeUnset = tp.Chance(1, 6)
	if tp.Chance(1, 5) {
		cfg.Leftover = []int{20, 800, 5000}[tp.Draw(3)]
	}
	if cfg.SpikeUnset {
		cfg.SpikeMiB = 0
		pctSpike = 0
	}
	cfg.SlowReads = tp.Chance(1, 4)
	if lockInstrumented && !cfg.SlowReads && !(cfg.Ext && cfg.Sharers == 1) && tp.Chance(1, 4) {
		cfg.SlowGC = true
		mS := tp.Range(1, 3)
		mH := tp.Range(1, mS)
		cfg.SoftGCms = mS*cfg.CheckS*1000 - 200
		cfg.HardGCms = mH*cfg.CheckS*1000 - 200
	}
	r.Sample = cfg
	r.Logf("config %+v", cfg)
	begin := time.Now()
	script := &memScript{fallback: 0, gate: make(chan struct{})}
	oldRead, oldGet := memorylimiter.ReadMemStatsFn, memorylimiter.GetMemoryFn
	memorylimiter.ReadMemStatsFn = script.read
	memorylimiter.GetMemoryFn = func() (uint64, error) { return cfg.TotalMiB * mib, nil }
	defer func() { memorylimiter.ReadMemStatsFn, memorylimiter.GetMemoryFn = oldRead, oldGet }()

	limit := uint64(cfg.LimitMiB) * mib
	spike := uint64(cfg.SpikeMiB) * mib
	softMin, hardMin := time.Duration(cfg.SoftGCs)*time.Second, time.Duration(cfg.HardGCs)*time.Second
	const gcDur = 500 * time.Millisecond
	var gcBusy atomic.Bool
	if cfg.SlowGC {
		softMin, hardMin = time.Duration(cfg.SoftGCms)*time.Millisecond, time.Duration(cfg.HardGCms)*time.Millisecond
		setBeforeGC(func() {
			gcBusy.Store(true)
			time.Sleep(gcDur)
			gcBusy.Store(false)
		})
		defer setBeforeGC(nil)
		r.Count("fault.slow_forced_collections")
	}
	// a step that moves the clock ends only when a collection that began in it is over
	waitGC := func() {
		for i := 0; gcBusy.Load() && i < 100; i++ {
			time.Sleep(50 * time.Millisecond)
		}
	}
	mk := func() *memorylimiter.Config {
		c := &memorylimiter.Config{CheckInterval: time.Duration(cfg.CheckS) * time.Second,
			MinGCIntervalWhenSoftLimited: softMin, MinGCIntervalWhenHardLimited: hardMin}
		if cfg.Percent {
			c.MemoryLimitPercentage = pctLimit
			c.MemorySpikePercentage = pctSpike
			if cfg.Leftover > 0 {
				c.MemorySpikeLimitMiB = uint32(cfg.Leftover) // left over from fixed settings: not used in this mode
			}
		} else {
			c.MemoryLimitMiB = uint32(cfg.LimitMiB)
			c.MemorySpikeLimitMiB = uint32(cfg.SpikeMiB)
			if cfg.Leftover > 0 {
				c.MemoryLimitPercentage, c.MemorySpikePercentage = 50, 10 // left over: limit_mib takes precedence
			}
		}
		if err := c.Validate(); err != nil {
			panic("harness: invalid memory limiter config: " + err.Error())
		}
		return c
	}
	pcfg := mk()
	if cfg.Percent {
		limit = uint64(pcfg.MemoryLimitPercentage) * cfg.TotalMiB * mib / 100
		spike = uint64(pcfg.MemorySpikePercentage) * cfg.TotalMiB * mib / 100
	}
	if spike == 0 {
		spike = limit / 5 // "default = 20% of the limit" (README of the processor and of the extension)
	}
	soft := limit - spike

	// sharers: processors of different signals created by ONE factory with the SAME config -> one limiter
	f := memorylimiterprocessor.NewFactory()
	set := processor.Settings{ID: component.MustNewID("memory_limiter"), TelemetrySettings: componenttest.NewNopTelemetrySettings(), BuildInfo: component.NewDefaultBuildInfo()}
	type sharer struct {
		sig     string
		comp    component.Component
		consume func(ctx context.Context, x any) error
		started bool
		stopped bool
	}
	var sinkGot []byte
	sinkCalls := 0
	var sinkErr error
	var sharers []*sharer
	newGeneration := func(pcfg *memorylimiter.Config) {
		sharers = make([]*sharer, cfg.Sharers)
		for i := range sharers {
			sig := signals[i%3]
			sh := &sharer{sig: sig}
			p := pd{sig: sig}
			switch sig {
			case sigLogs:
				next, _ := consumer.NewLogs(func(_ context.Context, ld plog.Logs) error { sinkCalls++; sinkGot = p.bytes(ld); return sinkErr })
				c, err := f.CreateLogs(context.Background(), set, pcfg, next)
				if err != nil {
					panic(err)
				}
				sh.comp, sh.consume = c, func(ctx context.Context, x any) error { return c.ConsumeLogs(ctx, x.(plog.Logs)) }
			case sigTraces:
				next, _ := consumer.NewTraces(func(_ context.Context, td ptrace.Traces) error { sinkCalls++; sinkGot = p.bytes(td); return sinkErr })
				c, err := f.CreateTraces(context.Background(), set, pcfg, next)
				if err != nil {
					panic(err)
				}
				sh.comp, sh.consume = c, func(ctx context.Context, x any) error { return c.ConsumeTraces(ctx, x.(ptrace.Traces)) }
			default:
				next, _ := consumer.NewMetrics(func(_ context.Context, md pmetric.Metrics) error { sinkCalls++; sinkGot = p.bytes(md); return sinkErr })
				c, err := f.CreateMetrics(context.Background(), set, pcfg, next)
				if err != nil {
					panic(err)
				}
				sh.comp, sh.consume = c, func(ctx context.Context, x any) error { return c.ConsumeMetrics(ctx, x.(pmetric.Metrics)) }
			}
			sharers[i] = sh
		}
	}
	newGeneration(pcfg)
	generation := 1
	var ext interface {
		component.Component
		MustRefuse() bool
	}
	extScript := script // the extension has its own limiter but reads through the same hook; it is exercised alone
	_ = extScript
	if cfg.Ext && cfg.Sharers == 1 {
		// extension runs are separate runs: replace the processors by the extension
		ef := memorylimiterextension.NewFactory()
		e, err := ef.Create(context.Background(), extension.Settings{ID: component.MustNewID("memory_limiter"), TelemetrySettings: componenttest.NewNopTelemetrySettings(), BuildInfo: component.NewDefaultBuildInfo()}, mk())
		if err != nil {
			panic(err)
		}
		ext = e.(interface {
			component.Component
			MustRefuse() bool
		})
		sharers = nil
	}
	created := time.Now()
	r.Settle()
	script.takenNow()

	// reference model
	refusing := false
	var lastGC time.Time
	gcKnown := false
	_ = created
	running := 0
	extStarted := false
	ids := &gen.IDs{Prefix: "i"}
	interval := time.Duration(cfg.CheckS) * time.Second
	classes := []uint64{soft / 2, soft - 1, soft, soft + 1, (soft + limit) / 2, limit - 1, limit, limit + 1, limit * 2}
	if cfg.Percent || cfg.SpikeUnset {
		// a percentage of the total (or the default spike, 20 % of the limit) is not a whole number of bytes in general
		// and the property does not say how it is rounded: readings stay 1 MiB clear of the two thresholds (the
		// fixed-limit mode with an explicit spike probes the exact boundaries)
		classes = []uint64{soft / 2, soft - mib, soft + mib, (soft + limit) / 2, limit - mib, limit + mib, limit * 2}
	}

	applyChecks := func(taken []uint64, when string) {
		// fold the readings consumed since the last step into the model: a check consumes 1 reading, or 2 when it
		// forced a collection
		i := 0
		for i < len(taken) {
			first := taken[i]
			at := script.lastAt[i]
			i++
			above := first >= soft
			hard := first >= limit
			gc := false
			// a second reading directly after the first in the same check means a GC was forced; the scheduler queues
			// exactly [first, afterGC] per advance, so a second value consumed in this batch is the after-GC reading
			if i < len(taken) {
				gc = true
			}
			minInt := softMin
			sev := "soft"
			if hard {
				minInt = hardMin
				sev = "hard"
			}
			measurement := first
			gcEnd := at
			if gc {
				measurement = taken[i]
				gcEnd = script.lastAt[i] // the reading after the collection is taken the instant it is done
				i++
				r.Count("probe.forced_gc")
				if !above {
					r.Failf("gc", "below-soft-limit", "%s: a collection was forced although usage %d MiB is below the soft limit %d MiB", when, first/mib, soft/mib)
				}
				if gcKnown && at.Sub(lastGC) < minInt {
					r.Failf("gc", "interval-not-elapsed/"+sev, "%s: a collection was forced %s after the previous one; minimum interval for %s severity is %s", when, at.Sub(lastGC), sev, minInt)
				}
				lastGC = gcEnd
				gcKnown = true
			} else if above && gcKnown && at.Sub(lastGC) > minInt {
				r.Failf("gc", "due-but-not-forced/"+sev, "%s: usage %d MiB is above the soft limit, %s have passed since the last forced collection (minimum %s) but none was forced", when, first/mib, at.Sub(lastGC), minInt)
			}
			refusing = measurement >= soft
			r.Logf("  check: first=%dMiB gc=%v measurement=%dMiB -> refuse=%v", first/mib, gc, measurement/mib, refusing)
		}
	}

	// a Shutdown that runs as a task of its own (only while a reading is parked: the last user's Shutdown waits for
	// the checker, which is inside that reading)
	type shutTask struct {
		sh   *sharer
		i    int
		done bool
		err  error
	}
	var shutMu sync.Mutex
	var pending *shutTask
	shutdownCtx := func() context.Context {
		if tp.Chance(1, 3) {
			r.Count("fault.shutdown_with_done_context")
			c, cancel := context.WithCancel(context.Background())
			cancel()
			return c
		}
		return context.Background()
	}
	for step := 0; step < cfg.Steps && !r.Failed(); step++ {
		var ch []simkit.Choice
		parked := script.isParked()
		if parked {
			ch = append(ch, simkit.Choice{Name: "release-reading", W: 4, Fire: func() { script.release() }})
		}
		for i, sh := range sharers {
			i, sh := i, sh
			if pending != nil {
				// Start and Shutdown of the other sharers queue behind the limiter's reference-count lock, which the pending
				// Shutdown holds while it waits for the checker: only consume calls and the release are delivered
			} else if !sh.started {
				ch = append(ch, simkit.Choice{Name: fmt.Sprintf("start:%d", i), W: 3, Fire: func() {
					sctx, started := simkit.StartContext(tp)
					if err := sh.comp.Start(sctx, componenttest.NewNopHost()); err != nil {
						r.Failf("lifecycle", "start-error", "start of sharer %d: %v", i, err)
					}
					started() // the host cancels the start context as soon as Start has returned (or never)
					sh.started = true
					running++
				}})
			} else if !sh.stopped && (running > 1 || step > cfg.Steps/2) {
				ch = append(ch, simkit.Choice{Name: fmt.Sprintf("shutdown:%d", i), W: 1, Fire: func() {
					ctx := shutdownCtx()
					if parked {
						r.Count("probe.shutdown_while_a_check_is_in_progress")
						t := &shutTask{sh: sh, i: i}
						pending = t
						go func() {
							err := sh.comp.Shutdown(ctx)
							shutMu.Lock()
							t.done, t.err = true, err
							shutMu.Unlock()
						}()
						return
					}
					if err := sh.comp.Shutdown(ctx); err != nil {
						r.Failf("lifecycle", "shutdown-error", "shutdown of sharer %d: %v", i, err)
					}
					sh.stopped = true
					running--
				}})
			}
			if sh.started && !sh.stopped {
				ch = append(ch, simkit.Choice{Name: fmt.Sprintf("consume:%d", i), W: 3, Fire: func() {
					p := pd{sig: sh.sig}
					payload := p.gen(tp, ids)
					want := p.bytes(payload)
					sinkErr = nil
					if tp.Chance(1, 4) {
						sinkErr = errStubConsume
						r.Count("fault.downstream_error")
					}
					sinkCalls, sinkGot = 0, nil
					err := sh.consume(context.Background(), payload)
					if refusing {
						r.Count("probe.consume_while_refusing")
						if err == nil {
							r.Failf("refuse", "accepted-while-refusing", "the limiter is in refusing mode but Consume returned nil")
						} else if consumererror.IsPermanent(err) {
							r.Failf("refuse", "permanent-error", "refusal is reported as a permanent error: %v", err)
						}
						if sinkCalls != 0 {
							r.Failf("refuse", "forwarded-while-refusing", "data was forwarded downstream while refusing")
						}
					} else {
						if sinkCalls != 1 {
							r.Failf("forward", fmt.Sprintf("downstream-called-%d-times", sinkCalls), "not refusing, but downstream was called %d times (Consume returned %v)", sinkCalls, err)
						} else if !bytes.Equal(sinkGot, want) {
							r.Failf("forward", "payload-modified", "the payload forwarded downstream differs from the one received")
						}
						if !errors.Is(err, sinkErr) && !(err == nil && sinkErr == nil) {
							r.Failf("forward", "result-not-propagated", "downstream returned %v, Consume returned %v", sinkErr, err)
						}
					}
				}})
			}
		}
		if ext != nil {
			if !extStarted {
				ch = append(ch, simkit.Choice{Name: "start:ext", W: 3, Fire: func() {
					sctx, started := simkit.StartContext(tp)
					_ = ext.Start(sctx, componenttest.NewNopHost())
					started()
					extStarted = true
					running++
				}})
			} else if running > 0 {
				ch = append(ch, simkit.Choice{Name: "ext-must-refuse", W: 2, Fire: func() {
					if got := ext.MustRefuse(); got != refusing {
						r.Failf("refuse", "extension-answer", "extension MustRefuse()=%v, the last measurement implies %v", got, refusing)
					}
				}})
				if step > cfg.Steps/2 {
					ch = append(ch, simkit.Choice{Name: "shutdown:ext", W: 1, Fire: func() {
						_ = ext.Shutdown(context.Background())
						running--
					}})
				}
			}
		}
		// time: a full check interval with a tape-chosen reading (and after-GC reading), or a fraction of it
		// (not while a reading is parked: the checks of a run stay one per interval, which is what the model folds)
		if !parked {
			ch = append(ch, simkit.Choice{Name: "advance:check_interval", W: 5, Fire: func() {
				if cfg.SlowReads && ext == nil && running > 0 && tp.Chance(1, 2) {
					script.mu.Lock()
					script.parkNext = true
					script.mu.Unlock()
					r.Count("fault.slow_memory_reading")
				}
				first := classes[tp.Draw(len(classes))]
				after := classes[tp.Draw(len(classes))]
				if tp.Chance(1, 2) {
					after = first // GC had no effect
				}
				script.set(first, after)
				r.Logf("  next reading %d MiB, after a GC %d MiB (soft %d, hard %d)", first/mib, after/mib, soft/mib, limit/mib)
				time.Sleep(interval)
				waitGC()
			}})
			ch = append(ch, simkit.Choice{Name: "advance:fraction", W: 1, Fire: func() {
				first := classes[tp.Draw(len(classes))]
				script.set(first, first)
				time.Sleep(interval / 3)
				waitGC()
			}})
		}
		wasRunning := running
		before := time.Now()
		ev := r.Pick(ch)
		if cfg.SlowGC {
			// a check can begin in any step (a tick left over from before the first Start): the step ends when its
			// collection is over
			waitGC()
			r.Settle()
		}
		if pending != nil {
			shutMu.Lock()
			done, err := pending.done, pending.err
			shutMu.Unlock()
			if done {
				if err != nil {
					r.Failf("lifecycle", "shutdown-error", "shutdown of sharer %d: %v", pending.i, err)
				}
				pending.sh.stopped = true
				running--
				pending = nil
			}
		}
		if !script.isParked() {
			// a slow reading that was asked for but not taken (no checker running) is forgotten
			script.mu.Lock()
			script.parkNext = false
			script.mu.Unlock()
		}
		taken := script.takenNow()
		if wasRunning == 0 && running == 0 && len(taken) > 0 && anyStopped(func() bool {
			for _, sh := range sharers {
				if sh.stopped {
					return true
				}
			}
			return false
		}) {
			r.Failf("lifecycle", "checker-runs-after-last-shutdown", "%d memory readings were taken after the last user of the limiter had shut down", len(taken))
		}
		if ev == "advance:check_interval" && wasRunning > 0 && running > 0 && len(taken) == 0 && !script.isParked() {
			r.Failf("lifecycle", "checker-not-running", "a full check interval passed with %d users started but no memory reading was taken", running)
		}
		_ = before
		applyChecks(taken, ev)
		if len(taken) > 0 {
			r.Nontrivial = true
		}
		r.State(fmt.Sprintf("refusing=%v running=%d", refusing, running), evKind(ev))
		// done when everything has been shut down after having been started
		// (a limiter is not restarted after its last user has gone: the collector never does that within one service
		// lifetime, and the property speaks of running until the last user has shut down)
		allDone := running == 0
		anyStoppedNow := false
		for _, sh := range sharers {
			if sh.stopped {
				anyStoppedNow = true
			}
		}
		if !anyStoppedNow {
			allDone = false
		}
		if pending != nil {
			allDone = false
		}
		if allDone && len(sharers) > 0 {
			if script.isParked() {
				// every user has shut down: the checker must have stopped, so a reading still in progress is one too many
				r.Fire("release-reading", func() { script.release() })
				if t := script.takenNow(); len(t) > 0 {
					r.Failf("lifecycle", "checker-runs-after-last-shutdown", "the last user's Shutdown returned while a check was in progress; the check went on and took %d memory readings afterwards", len(t))
				}
			}
			// one more interval: nothing may tick
			script.set(limit*2, limit*2)
			r.Fire("advance:after-last-shutdown", func() { time.Sleep(2 * interval) })
			if t := script.takenNow(); len(t) > 0 {
				r.Failf("lifecycle", "checker-runs-after-last-shutdown", "%d memory readings were taken after the last user of the limiter had shut down", len(t))
			}
			if generation == 1 && tp.Chance(1, 2) {
				// a second generation, as after a configuration reload that reuses the factory: NEW processors built from
				// a NEW configuration object with the same values. They get a limiter of their own that starts accepting.
				generation = 2
				r.Count("probe.second_generation_from_the_same_factory")
				newGeneration(mk())
				refusing, gcKnown = false, false
				continue
			}
			break
		}
	}
	// clean up so that the bubble can end
	if script.isParked() {
		script.release()
		r.Settle()
	}
	r.Settle()
	for _, sh := range sharers {
		if pending != nil && pending.sh == sh {
			continue
		}
		if sh.started && !sh.stopped {
			_ = sh.comp.Shutdown(context.Background())
		}
	}
	if ext != nil && extStarted && running > 0 {
		_ = ext.Shutdown(context.Background())
	}
	r.Settle()
	r.Virtual = time.Since(begin)
}

func anyStopped(f func() bool) bool { return f() }

var HarnessC18 = simkit.Harness{
	Prop: "C18", Name: "svc/c18", Run: runC18, StepTimeout: 20e9,
	Real: []string{"internal/memorylimiter.MemoryLimiter (ticker goroutine, CheckMemLimits, reference-counted Start/Shutdown, real runtime.GC)", "memorylimiterprocessor factory (one limiter shared by processors of several signals) on top of processorhelper", "memorylimiterextension"},
	Stub: []string{"memory readings (ReadMemStatsFn / GetMemoryFn package variables) scripted per check: first reading and reading after a forced GC", "downstream sinks (ok / error)"},
	Rule: "one run = one tape-drawn configuration accepted by Validate() (check interval, soft/hard minimum GC intervals, fixed or percentage limits, spike limit), 1-3 processors sharing one limiter (or the extension; after the last one has shut down optionally a second generation of processors built by the same factory from a new, equal configuration object), and a schedule of start / shutdown of individual sharers, virtual-clock advances by the check interval or a third of it with a tape-chosen reading class (below soft, soft-1, soft, soft+1, between, hard-1, hard, hard+1, far above) and after-GC reading, and consume calls with accepting or failing downstream; in 1 run in 4 some memory readings are slow (the checker's goroutine parks inside the reading until a release event; starts, consume calls and Shutdowns - 1 in 3 with a context that is already done, the last user's as a task of its own - arrive while that check is in progress; once the last user's Shutdown has returned no reading may be taken or finished); in builds with the instrumentation overlay 1 run in 4 has slow forced collections (half a second of virtual time each, minimum GC intervals of a multiple of the check interval minus 200 ms, intervals measured from the end of a collection); a forced GC is observed as the second reading consumed by one check; distinct = distinct event-log hash; non-trivial = at least one check ran",
}
