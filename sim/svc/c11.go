package verifsim

import (
	"context"
	"errors"
	"fmt"
	"runtime"
	"sort"
	"strings"
	"sync"

	"go.opentelemetry.io/collector/component"
	"go.opentelemetry.io/collector/component/componentstatus"
	"go.opentelemetry.io/collector/internal/sharedcomponent"
	"go.opentelemetry.io/collector/pipeline"
	"go.opentelemetry.io/collector/service"
	"go.opentelemetry.io/collector/service/internal/graph"
	"go.opentelemetry.io/collector/service/internal/status"
	"verif.local/simkit"
)

// ---- reference state machine, written from docs/component-status.md (text + state diagram) and the property ---

type st = componentstatus.Status

const (
	sNone  = componentstatus.StatusNone
	sStart = componentstatus.StatusStarting
	sOK    = componentstatus.StatusOK
	sRec   = componentstatus.StatusRecoverableError
	sPerm  = componentstatus.StatusPermanentError
	sFatal = componentstatus.StatusFatalError
	sStopg = componentstatus.StatusStopping
	sStopd = componentstatus.StatusStopped
)

var allStatuses = []st{sStart, sOK, sRec, sPerm, sFatal, sStopg, sStopd, sNone}

const (
	must    = 1 // the diagram has the edge and the text does not forbid it: an event must be emitted
	mustNot = 0 // repeated status, edge absent from the diagram, or forbidden by the text: nothing may be emitted
	may     = 2 // diagram and text disagree or are silent in a way the property does not pin down
)

// refTransition classifies a report of status `to` for an instance currently in `from`.
func refTransition(from, to st) int {
	if from == to {
		return mustNot // "never repeats the current status"
	}
	switch from {
	case sNone:
		if to == sStart {
			return must
		}
		return mustNot // "it begins with Starting"
	case sFatal, sStopd:
		return mustNot // "nothing follows FatalError or Stopped"
	case sPerm:
		if to == sStopg {
			return must
		}
		if to == sFatal {
			return may // the diagram draws !Stopped -> Fatal, the text says PermanentError is left only for Stopping
		}
		return mustNot
	case sStart:
		switch to {
		case sOK, sRec, sPerm, sFatal:
			return must
		case sStopg:
			return may // not drawn in the diagram; a component may be shut down while still Starting
		}
	case sOK:
		switch to {
		case sRec, sPerm, sFatal, sStopg:
			return must
		}
	case sRec:
		switch to {
		case sOK, sPerm, sFatal, sStopg:
			return must
		}
	case sStopg:
		switch to {
		case sStopd, sPerm, sFatal:
			return must
		case sRec:
			return may // not drawn; the automation text only mentions PermanentError for a failed Shutdown
		}
	}
	return mustNot
}

type refInstance struct {
	cur    st
	events []st
}

// ---- C11 ----------------------------------------------------------------------------------------------------

func newInstance(i int) *componentstatus.InstanceID {
	return componentstatus.NewInstanceID(component.MustNewIDWithName("comp", fmt.Sprint(i)), component.KindReceiver, pipeline.NewIDWithName(pipeline.SignalLogs, "p"))
}

// runC11Enumerate is the bounded exhaustive supplement: every report sequence of length <= 4 over the nine-letter
// alphabet (eight statuses + ReportOKIfStarting) on one instance, each refined against the reference. The deciding
// step stays the seeded merge search; this only makes sure no short sequence is missed by sampling.
func runC11Enumerate(r *simkit.Run) {
	alphabet := append(append([]st(nil), allStatuses...), st(-1)) // -1 = ReportOKIfStarting
	n := 0
	var rec func(prefix []st, depth int)
	rec = func(prefix []st, depth int) {
		if len(prefix) > 0 {
			n++
			simkit.Beat()
			inst := newInstance(0)
			var got []st
			rep := status.NewReporter(func(_ *componentstatus.InstanceID, ev *componentstatus.Event) { got = append(got, ev.Status()) }, func(error) {})
			cur := sNone
			var want []st
			ambiguous := false
			for _, x := range prefix {
				before := len(got)
				if x == st(-1) {
					rep.ReportOKIfStarting(inst)
					if cur == sStart {
						want = append(want, sOK)
						cur = sOK
					}
					continue
				}
				rep.ReportStatus(inst, componentstatus.NewEvent(x))
				switch refTransition(cur, x) {
				case must:
					want = append(want, x)
					cur = x
				case may:
					ambiguous = true
					if len(got) > before {
						want = append(want, x)
						cur = x
					}
				}
			}
			if fmt.Sprint(got) != fmt.Sprint(want) && !r.Failed() {
				r.Failf("fsm", "enumerated-sequence", "report sequence %v emitted %v, the documented state machine implies %v (ambiguous transitions followed: %v)", prefix, got, want, ambiguous)
			}
		}
		if depth == 4 {
			return
		}
		for _, a := range alphabet {
			rec(append(prefix, a), depth+1)
		}
	}
	rec(nil, 0)
	r.CountN("probe.exhaustive_sequences_len_le_4", int64(n))
	r.Events += n
	r.Sample = map[string]any{"mode": "enumerate", "sequences": n}
	r.Logf("enumerated %d sequences", n)
}

func runC11(r *simkit.Run) {
	if r.Tape.Chance(1, 200) {
		runC11Enumerate(r)
		return
	}
	switch r.Tape.Weighted(7, 1, 2, 2) {
	case 0:
		runC11Direct(r, false)
	case 1:
		runC11Direct(r, true)
	case 3:
		runC11Shared(r)
	default:
		runC11Service(r)
	}
}

// ---- shared component driven directly: instances attach while the component keeps reporting -------------------

type sharedStub struct {
	host      component.Host
	failStart bool
	// Shutdown: optionally reports RecoverableError while stopping (with the error it is about to return, or another
	// one) and optionally fails
	failShutdown   bool
	reportStopping int // 0 no report, 1 RecoverableError(same error), 2 RecoverableError(other error)
}

var errSharedShutdown = errors.New("stub: shared component shutdown failed")

func (c *sharedStub) Start(_ context.Context, h component.Host) error {
	c.host = h
	if c.failStart {
		return errStubStart
	}
	return nil
}
func (c *sharedStub) Shutdown(context.Context) error {
	switch c.reportStopping {
	case 1:
		componentstatus.ReportStatus(c.host, componentstatus.NewRecoverableErrorEvent(fmt.Errorf("still flushing: %w", errSharedShutdown)))
	case 2:
		componentstatus.ReportStatus(c.host, componentstatus.NewRecoverableErrorEvent(errors.New("stub: still flushing")))
	}
	if c.failShutdown {
		return errSharedShutdown
	}
	return nil
}

// instHost is what the graph hands to a component for one instance: reports go to the service's reporter under the
// instance's id.
type instHost struct {
	id  *componentstatus.InstanceID
	rep status.Reporter
	// seam: called at the entry of every Report made to this instance's host (the replay to a late-attached instance
	// comes through here too)
	seam func()
}

func (h instHost) GetExtensions() map[component.ID]component.Component { return nil }
func (h instHost) Report(e *componentstatus.Event) {
	if h.seam != nil {
		h.seam()
	}
	h.rep.ReportStatus(h.id, e)
}

// runC11Shared: one component wrapped by the real internal/sharedcomponent and represented by 2-4 instances (as a
// receiver serving several signals). The tape interleaves "the service starts the next instance" (Starting from the
// service, Start on the shared wrapper, automatic OK) with reports of the running component - any number of them
// between two attachments - and finally stops every instance. Clauses: every instance's delivered sequence is a path
// of the diagram, and the component's status reaches every instance it represents: after each step the most recent
// report of the component either is the current status of every attached instance or is not a transition of the
// diagram from that instance's current status (nothing else may keep it from arriving; how much older history a
// late-attached instance is shown is not prescribed).
func runC11Shared(r *simkit.Run) {
	tp := r.Tape
	ninst := tp.Range(2, 4)
	var mu sync.Mutex
	per := make([][]st, ninst)
	idx := map[*componentstatus.InstanceID]int{}
	rep := status.NewReporter(func(id *componentstatus.InstanceID, ev *componentstatus.Event) {
		mu.Lock()
		per[idx[id]] = append(per[idx[id]], ev.Status())
		mu.Unlock()
	}, func(error) {})
	ids := make([]*componentstatus.InstanceID, ninst)
	sigs := []pipeline.Signal{pipeline.SignalLogs, pipeline.SignalTraces, pipeline.SignalMetrics, pipeline.SignalLogs}
	for i := range ids {
		ids[i] = componentstatus.NewInstanceID(component.MustNewIDWithName("shr", "1"), component.KindReceiver, pipeline.NewIDWithName(sigs[i], fmt.Sprint("p", i)))
		idx[ids[i]] = i
	}
	m := sharedcomponent.NewMap[string, *sharedStub]()
	stub := &sharedStub{failStart: tp.Chance(1, 6), failShutdown: tp.Chance(1, 4), reportStopping: tp.Weighted(3, 1, 1)}
	if stub.failStart {
		r.Count("fault.shared_component_start_failure")
	}
	comps := make([]*sharedcomponent.Component[*sharedStub], ninst)
	for i := range comps {
		c, err := m.LoadOrStore("shr/1", func() (*sharedStub, error) { return stub, nil })
		if err != nil {
			panic(err)
		}
		comps[i] = c
	}
	attached := 0
	var last *st // most recent report of the component
	cur := func(i int) st {
		if len(per[i]) == 0 {
			return sNone
		}
		return per[i][len(per[i])-1]
	}
	check := func(when string) {
		if last == nil {
			return
		}
		for i := 0; i < attached; i++ {
			c := cur(i)
			if c != *last && refTransition(c, *last) == must {
				r.Failf("shared", "status-not-delivered-to-instance", "%s: the component's most recent report is %s; instance %d (of %d attached) is in %s, from where %s is a transition of the diagram, so the report did not reach it; sequences %v", when, *last, i, attached, c, *last, per[:attached])
			}
		}
	}
	// A report of the component that arrives WHILE a late instance is being attached (from another goroutine of the
	// component, at the k-th event shown to the new instance): it must end up as everybody's status all the same.
	var concTask *simkit.Task
	var concStatus st
	armAt := -1
	attach := func() {
		i := attached
		host := instHost{id: ids[i], rep: rep}
		if armAt >= 0 && i > 0 && stub.host != nil {
			seen := 0
			k, x := armAt, concStatus
			host.seam = func() {
				seen++
				if seen-1 != k || concTask != nil || armAt < 0 {
					return // (armAt < 0: the attachment is over, the seam is for reports made during it)
				}
				r.Count("fault.component_report_during_late_attach")
				concTask = simkit.Go("report-during-attach", func(*simkit.Task) {
					componentstatus.ReportStatus(stub.host, componentstatus.NewEvent(x))
				})
				for j := 0; j < 300; j++ {
					runtime.Gosched()
				}
			}
		}
		// the service: Starting, Start, automatic OK if the instance is still Starting
		rep.ReportStatus(ids[i], componentstatus.NewEvent(sStart))
		if err := comps[i].Start(context.Background(), host); err != nil {
			// the one Start of the shared component failed: the wrapper reports PermanentError on the component's
			// behalf (to every instance, also those attached later), and so does the service for this instance
			rep.ReportStatus(ids[i], componentstatus.NewPermanentErrorEvent(err))
			x := sPerm
			last = &x
		} else {
			rep.ReportOKIfStarting(ids[i])
		}
		attached++
		if i > 0 {
			r.Count("probe.late_instance_attached")
		}
	}
	steps := tp.Range(3, 18)
	r.Sample = map[string]any{"mode": "shared-direct", "instances": ninst, "steps": steps}
	r.Fire("attach:0", attach)
	nrep := 0
	for s := 0; s < steps && !r.Failed(); s++ {
		if attached < ninst && tp.Chance(1, 4) {
			i := attached
			armAt, concTask = -1, nil
			if last != nil && (*last == sOK || *last == sRec) && tp.Chance(1, 2) {
				armAt = tp.Draw(3)
				concStatus = sOK
				if *last == sOK {
					concStatus = sRec
				}
			}
			r.Fire(fmt.Sprintf("attach:%d", i), attach)
			armAt = -1
			if concTask != nil {
				// the concurrent reporter blocks on plain mutexes only; nobody holds them now
				for !concTask.Done() {
					runtime.Gosched()
				}
				x := concStatus
				last = &x
				nrep++
			}
			if nrep >= 5 {
				r.Count("probe.late_instance_attached_after_5_or_more_reports")
			}
			check(fmt.Sprintf("after instance %d attached", i))
			continue
		}
		x := []st{sOK, sRec, sOK, sRec, sRec, sPerm, sStopg, sStart}[tp.Weighted(6, 6, 3, 3, 2, 1, 1, 1)]
		r.Fire("component-report:"+x.String(), func() {
			componentstatus.ReportStatus(stub.host, componentstatus.NewEvent(x))
		})
		nrep++
		last = &x
		check("after the component reported " + x.String())
	}
	for attached < ninst && !r.Failed() {
		i := attached
		r.Fire(fmt.Sprintf("attach:%d", i), attach)
		check(fmt.Sprintf("after instance %d attached", i))
	}
	// the service stops every instance
	for i := 0; i < attached && !r.Failed(); i++ {
		i := i
		r.Fire(fmt.Sprintf("stop:%d", i), func() {
			// the service: Stopping, Shutdown, then Stopped or (failed Shutdown) PermanentError for this instance; the
			// shared wrapper reports the same on the component's behalf to every instance, once
			rep.ReportStatus(ids[i], componentstatus.NewEvent(sStopg))
			if err := comps[i].Shutdown(context.Background()); err != nil {
				rep.ReportStatus(ids[i], componentstatus.NewPermanentErrorEvent(err))
			} else {
				rep.ReportStatus(ids[i], componentstatus.NewEvent(sStopd))
			}
		})
		if i == 0 && !stub.failStart {
			// the one real Shutdown has happened: its outcome is the component's most recent status
			x := sStopd
			if stub.failShutdown {
				x = sPerm
				r.Count("fault.shared_component_shutdown_failure")
			}
			last = &x
			check("after the shared component was shut down through instance 0")
		}
	}
	for i := 0; i < attached; i++ {
		checkPath(r, fmt.Sprintf("instance %d", i), per[i])
		r.Logf("  instance %d: %v", i, per[i])
	}
	r.Nontrivial = true
	r.State(fmt.Sprintf("shared inst=%d reports=%d", ninst, nrep/4), "end")
}

func runC11Direct(r *simkit.Run, burst bool) {
	tp := r.Tape
	ninst := tp.Range(1, 3)
	ntasks := tp.Range(1, 4)
	insts := make([]*componentstatus.InstanceID, ninst)
	refs := make([]*refInstance, ninst)
	got := make([][]st, ninst)
	idx := map[*componentstatus.InstanceID]int{}
	for i := range insts {
		insts[i] = newInstance(i)
		refs[i] = &refInstance{cur: sNone}
		idx[insts[i]] = i
	}
	var mu sync.Mutex
	rep := status.NewReporter(func(id *componentstatus.InstanceID, ev *componentstatus.Event) {
		mu.Lock()
		got[idx[id]] = append(got[idx[id]], ev.Status())
		mu.Unlock()
	}, func(error) {})
	type op struct {
		inst int
		to   st
		okIf bool
	}
	seqs := make([][]op, ntasks)
	for t := range seqs {
		n := tp.Range(1, 8)
		for i := 0; i < n; i++ {
			o := op{inst: tp.Draw(ninst)}
			// bias towards the legal life cycle so that deep states are reached, but draw every status
			k := tp.Draw(10)
			if k == 9 {
				o.okIf = true
			} else if k == 8 {
				o.to = sNone
			} else {
				o.to = allStatuses[k%7]
			}
			seqs[t] = append(seqs[t], o)
		}
	}
	r.Sample = map[string]any{"mode": map[bool]string{false: "merge", true: "burst"}[burst], "instances": ninst, "tasks": ntasks, "sequences": fmt.Sprint(seqs)}
	do := func(o op) {
		if o.okIf {
			rep.ReportOKIfStarting(insts[o.inst])
		} else {
			rep.ReportStatus(insts[o.inst], componentstatus.NewEvent(o.to))
		}
	}
	if burst {
		// all tasks run truly concurrently; oracle: every instance's emitted sequence is a path of the diagram
		var wg sync.WaitGroup
		for t := range seqs {
			wg.Add(1)
			go func(s []op) {
				defer wg.Done()
				for _, o := range s {
					do(o)
				}
			}(seqs[t])
		}
		wg.Wait()
		r.Events++
		r.Nontrivial = ntasks > 1
		for i := range got {
			checkPath(r, fmt.Sprintf("instance %d", i), got[i])
		}
		return
	}
	// merge mode: the tape picks which task performs its next report; each report is atomic under the reporter's
	// mutex, so the merged sequences are exactly the schedules
	pos := make([]int, ntasks)
	for {
		var live []int
		for t := range seqs {
			if pos[t] < len(seqs[t]) {
				live = append(live, t)
			}
		}
		if len(live) == 0 {
			break
		}
		t := live[tp.Draw(len(live))]
		o := seqs[t][pos[t]]
		pos[t]++
		before := len(got[o.inst])
		name := fmt.Sprintf("report:t%d:i%d:%s", t, o.inst, o.to)
		if o.okIf {
			name = fmt.Sprintf("report:t%d:i%d:OKIfStarting", t, o.inst)
		}
		r.Fire(name, func() { do(o) })
		emitted := got[o.inst][before:]
		ref := refs[o.inst]
		if o.okIf {
			if ref.cur == sStart {
				if len(emitted) != 1 || emitted[0] != sOK {
					r.Failf("auto-ok", "missing", "ReportOKIfStarting in state Starting emitted %v", emitted)
				}
				ref.cur = sOK
			} else if len(emitted) != 0 {
				r.Failf("auto-ok", "emitted-outside-starting", "ReportOKIfStarting in state %s emitted %v", ref.cur, emitted)
			}
		} else {
			switch refTransition(ref.cur, o.to) {
			case must:
				if len(emitted) != 1 || emitted[0] != o.to {
					r.Failf("fsm", fmt.Sprintf("legal-transition-dropped/%s->%s", ref.cur, o.to), "report %s in state %s is a legal transition but emitted %v", o.to, ref.cur, emitted)
				}
				ref.cur = o.to
			case mustNot:
				if len(emitted) != 0 {
					r.Failf("fsm", fmt.Sprintf("illegal-transition-emitted/%s->%s", ref.cur, o.to), "report %s in state %s is not a transition of the documented diagram but emitted %v", o.to, ref.cur, emitted)
					ref.cur = o.to
				}
			case may:
				r.Count("probe.underdetermined_transition")
				if len(emitted) == 1 && emitted[0] == o.to {
					ref.cur = o.to
				} else if len(emitted) != 0 {
					r.Failf("fsm", "wrong-event", "report %s in state %s emitted %v", o.to, ref.cur, emitted)
				}
			}
		}
		r.State(fmt.Sprintf("i%d=%s", o.inst, ref.cur), o.to.String())
		if len(live) > 1 {
			r.Nontrivial = true
		}
		if r.Failed() {
			return
		}
	}
	for i := range got {
		checkPath(r, fmt.Sprintf("instance %d", i), got[i])
	}
}

// checkPath asserts the four explicit clauses of the property on an emitted sequence.
func checkPath(r *simkit.Run, who string, seq []st) {
	cur := sNone
	for i, s := range seq {
		if refTransition(cur, s) == mustNot {
			r.Failf("path", fmt.Sprintf("%s->%s", cur, s), "%s: event %d of the emitted sequence %v is not a transition of the documented diagram", who, i, seq)
			return
		}
		cur = s
	}
}

// runC11Service: status events as seen by a watcher extension while the real service starts and stops stub
// components that report for themselves from inside Start and from their own tasks.
func runC11Service(r *simkit.Run) {
	tp := r.Tape
	var t topo
	for i := 0; i < 6; i++ {
		t = genTopo(tp, true)
		if t.Invalid == "" {
			break
		}
	}
	if t.Invalid != "" {
		return
	}
	t.Exts = append([]string{"watch/1"}, t.Exts...)
	r.Sample = map[string]any{"mode": "service", "topology": t}
	w := NewWorld(r)
	sset := w.serviceSettings(&t)
	// the channel on which the service hands fatal errors to the collector: unbuffered with nobody receiving (the
	// collector is busy), one slot (as the collector makes it), or roomy; the harness never receives from it
	asyncCap := []int{0, 1, 8}[tp.Draw(3)]
	sset.AsyncErrorChannel = make(chan error, asyncCap)
	srv, err := service.New(context.Background(), sset, t.serviceConfig())
	if err != nil {
		r.Failf("build", "valid-rejected", "a valid configuration was rejected: %v", err)
		return
	}
	// plans: some components report from inside Start; one may fail to start
	keys := compKeysOf(&t)
	for _, k := range keys {
		if tp.Chance(1, 3) {
			n := tp.Range(1, 3)
			for i := 0; i < n; i++ {
				w.plan(k).StartReports = append(w.plan(k).StartReports, []st{sOK, sRec, sPerm, sStart, sStopd}[tp.Draw(5)])
			}
		}
		if !strings.HasSuffix(k, ":*") && tp.Chance(1, 4) {
			// the component reports from inside its Shutdown, i.e. after the service has reported Stopping for it
			w.plan(k).ShutdownReports = [][]st{{sPerm}, {sRec}, {sPerm, sPerm}}[tp.Draw(3)]
			r.Count("fault.status_report_from_shutdown")
		}
	}
	// Concurrent component report placed inside the status delivery path: at the k-th event delivered for an instance
	// of a receiver shared across signals (which includes the replay to a late-attached instance) a goroutine of the
	// component reports RecoverableError through the shared host while delivery is still in progress. The scheduler
	// goroutine yields a bounded number of times so that the reporter gets as far as it can (it cannot finish: the
	// delivery path holds the status reporter's lock) and then carries on.
	trigger := -1
	if tp.Chance(1, 2) {
		trigger = tp.Draw(5)
	}
	seenShared := 0
	var conc []*simkit.Task
	w.onStatus = func(k string, _ st) {
		if !strings.HasPrefix(k, "receiver:shr/") {
			return
		}
		// the hook also runs on the goroutine of a concurrent reporter (when its own report is delivered)
		id := k[len("receiver:"):strings.Index(k, "@")]
		w.mu.Lock()
		seenShared++
		hit := seenShared-1 == trigger
		h := w.hosts["receiver:"+id+":*"]
		w.mu.Unlock()
		if !hit || h == nil {
			return
		}
		r.Count("fault.concurrent_report_during_delivery")
		r.Nontrivial = true
		t := simkit.Go("concurrent-report", func(*simkit.Task) {
			componentstatus.ReportStatus(h, componentstatus.NewEvent(sRec))
		})
		w.mu.Lock()
		conc = append(conc, t)
		w.mu.Unlock()
		for i := 0; i < 300; i++ {
			runtime.Gosched()
		}
	}
	failStart := ""
	if tp.Chance(1, 4) {
		failStart = keys[tp.Draw(len(keys))]
		w.plan(failStart).FailStart = true
		r.Count("fault.component_start_failure")
	}
	// The concurrent reporters are blocked on plain mutexes only (invisible to the bubble's quiescence detection) and
	// nobody holds those now: each one finishes as soon as the OS runs it. Wait for that, however long the machine
	// takes - a bounded number of yields made the snapshot below depend on the load of the machine.
	waitConc := func() {
		for i := 0; ; i++ {
			w.mu.Lock()
			ts := append([]*simkit.Task(nil), conc...)
			w.mu.Unlock()
			done := true
			for _, t := range ts {
				if !t.Done() {
					done = false
				}
			}
			if done {
				return
			}
			runtime.Gosched()
		}
	}
	startErr := srv.Start(context.Background())
	r.Events++
	// runtime reports from component tasks, merged by the tape
	hostKeys := make([]string, 0)
	w.mu.Lock()
	for k := range w.hosts {
		hostKeys = append(hostKeys, k)
	}
	w.mu.Unlock()
	sort.Strings(hostKeys)
	if startErr == nil && len(hostKeys) > 0 {
		waitConc()
		n := tp.Range(0, 8)
		for i := 0; i < n; i++ {
			k := hostKeys[tp.Draw(len(hostKeys))]
			s := []st{sOK, sRec, sPerm, sRec, sOK, sStopg, sStart, sFatal}[tp.Draw(8)]
			if s == sFatal {
				r.Count("fault.fatal_error_report")
			}
			w.mu.Lock()
			h := w.hosts[k]
			w.mu.Unlock()
			pre := w.StatusLog()
			last := map[string]st{}
			for _, line := range pre {
				parts := strings.SplitN(line, "|", 3)
				last[parts[0]] = statusByName(parts[1])
			}
			// the instances this host reports for: its own, or - a receiver shared across signals - every instance
			var insts []string
			if hw, ok := h.(*graph.HostWrapper); ok && hw.InstanceID != nil {
				insts = []string{instKey(hw.InstanceID)}
			} else if strings.HasSuffix(k, ":*") {
				prefix := strings.TrimSuffix(k, ":*") + "@["
				for ik := range last {
					if strings.HasPrefix(ik, prefix) {
						insts = append(insts, ik)
					}
				}
				sort.Strings(insts)
			}
			r.Fire(fmt.Sprintf("component-report:%s:%s", k, s), func() {
				componentstatus.ReportStatus(h, componentstatus.NewEvent(s))
			})
			r.Nontrivial = true
			// a report that is a transition of the diagram from the instance's status is delivered to the watcher,
			// whatever else the service does with it (a FatalError is also handed to the collector)
			post := w.StatusLog()
			for _, ik := range insts {
				prev, ok := last[ik]
				if !ok {
					prev = sNone
				}
				if refTransition(prev, s) != must {
					continue
				}
				got := 0
				for _, line := range post[len(pre):] {
					parts := strings.SplitN(line, "|", 3)
					if parts[0] == ik && statusByName(parts[1]) == s {
						got++
					}
				}
				if got != 1 {
					r.Failf("delivery", "legal-report-not-delivered/"+s.String(), "%s was in %s and its component reported %s (a transition of the diagram): the watcher received %d such events for it (async error channel capacity %d)", ik, prev, s, got, asyncCap)
				}
			}
		}
	}
	waitConc()
	beforeShutdown := len(w.StatusLog())
	_ = srv.Shutdown(context.Background())
	r.Events++
	waitConc() // a reporter started by an event of the shutdown itself
	// oracle: per instance, the sequence delivered to the watcher is a path of the diagram
	per := map[string][]st{}
	lastBefore := map[string]st{} // status of each instance when Shutdown was called
	var order []string
	for li, line := range w.StatusLog() {
		parts := strings.SplitN(line, "|", 3)
		var s st
		for _, c := range allStatuses {
			if c.String() == parts[1] {
				s = c
			}
		}
		if _, ok := per[parts[0]]; !ok {
			order = append(order, parts[0])
		}
		per[parts[0]] = append(per[parts[0]], s)
		if li < beforeShutdown {
			lastBefore[parts[0]] = s
		}
	}
	sort.Strings(order)
	for _, k := range order {
		checkPath(r, k, per[k])
		r.Logf("  %s: %v", k, per[k])
	}
	// a PermanentError reported from inside Shutdown follows the service's Stopping (Stopping -> PermanentError is an
	// edge of the diagram): it is delivered, whatever the component had reported before
	w.mu.Lock()
	shutRep := w.shutdownReported
	w.mu.Unlock()
	perAfter := map[string][]st{}
	for li, line := range w.StatusLog() {
		if li >= beforeShutdown {
			parts := strings.SplitN(line, "|", 3)
			perAfter[parts[0]] = append(perAfter[parts[0]], statusByName(parts[1]))
		}
	}
	for _, k := range order {
		reps := shutRep[k]
		if len(reps) == 0 || reps[0] != sPerm {
			continue
		}
		if lb, ok := lastBefore[k]; !ok || lb == sFatal || lb == sStopd {
			continue // nothing follows FatalError or Stopped
		}
		if !containsSt(perAfter[k], sPerm) {
			r.Failf("delivery", "legal-report-not-delivered/from-shutdown", "%s was in %s when the service began to shut down and reported PermanentError from inside its Shutdown (after the service's Stopping: an edge of the diagram): during the shutdown the watcher saw %v for it", k, lastBefore[k], perAfter[k])
		}
	}
	// a shared receiver delivers the same status sequence to every instance it represents
	shared := map[string][]string{}
	for _, k := range order {
		if strings.HasPrefix(k, "receiver:shr/") {
			id := k[:strings.Index(k, "@")]
			shared[id] = append(shared[id], k)
		}
	}
	for id, ks := range shared {
		for _, k := range ks[1:] {
			if len(conc) > 0 {
				// With a component report racing the start of a late instance the per-instance automatic OK may fall
				// before the report for one instance and be skipped for the other: the sequences may differ, but every
				// instance must have received the component's report, i.e. they agree on the status reached.
				if lastBefore[k] != lastBefore[ks[0]] {
					r.Failf("shared", "instances-disagree-on-status", "shared component %s after a concurrent component report: instance %s is in %s (saw %v) but instance %s is in %s (saw %v)", id, ks[0], lastBefore[ks[0]], per[ks[0]], k, lastBefore[k], per[k])
				}
				continue
			}
			if fmt.Sprint(per[k]) != fmt.Sprint(per[ks[0]]) {
				// an instance attached later is brought up to date by a replay of the last events (a ring of 5; the stub
				// components report at most 3 statuses from Start), so every instance sees the same sequence
				r.Failf("shared", "instances-disagree", "shared component %s: instance %s saw %v but instance %s saw %v", id, ks[0], per[ks[0]], k, per[k])
			}
		}
	}
	// clean lifetimes end Stopped
	if startErr == nil && failStart == "" {
		for _, k := range order {
			seq := per[k]
			last := seq[len(seq)-1]
			// Not part of the property's statement, a sanity check on the harness and the service: with no error ever
			// reported the service's own Stopping/Stopped close every sequence. An error reported while Stopping
			// (Stopping -> RecoverableError is a documented edge, RecoverableError -> Stopped is not) legitimately
			// leaves the instance in that error: the service's Stopped is then an illegal transition and is dropped.
			if last == sRec && len(seq) >= 2 && seq[len(seq)-2] == sStopg {
				r.Count("probe.error_while_stopping_swallows_stopped")
				continue
			}
			if last != sStopd && last != sFatal && !containsSt(seq, sPerm) && !containsSt(seq, sFatal) {
				r.Failf("lifecycle", "not-stopped", "%s went through a clean start and shutdown but its last status is %s (%v)", k, last, seq)
			}
		}
	}
}

func statusByName(n string) st {
	for _, c := range allStatuses {
		if c.String() == n {
			return c
		}
	}
	return sNone
}

func containsSt(xs []st, x st) bool {
	for _, y := range xs {
		if y == x {
			return true
		}
	}
	return false
}

// compKeysOf lists the plan keys of the pipeline components of a topology.
func compKeysOf(t *topo) []string {
	set := map[string]bool{}
	for _, p := range t.Pipes {
		for _, x := range p.Recv {
			if !isConn(x) {
				if typeOf(x) == "shr" {
					set["receiver:"+x+":*"] = true
				} else {
					set["receiver:"+x+":"+p.Sig] = true
				}
			}
		}
		for _, x := range p.Proc {
			set["processor:"+x+"@"+p.Name] = true
		}
		for _, x := range p.Exp {
			if !isConn(x) {
				set["exporter:"+x+":"+p.Sig] = true
			}
		}
	}
	out := make([]string, 0, len(set))
	for k := range set {
		out = append(out, k)
	}
	sort.Strings(out)
	return out
}

var HarnessC11 = simkit.Harness{
	Prop: "C11", Name: "svc/c11", Run: runC11, StepTimeout: 20e9, HashInsensitive: true,
	Real: append([]string{"service/internal/status reporter and state machine", "componentstatus.ReportStatus through graph.HostWrapper", "sharedcomponent host wrapper (status fan-out and replay to late instances)"}, svcReal...),
	Stub: svcStub,
	Rule: "one run = one of three modes: merge (1-3 instances, 1-4 reporter tasks with tape-drawn sequences over all eight statuses and ReportOKIfStarting; the tape picks which task reports next - reports are atomic under the reporter's mutex, so merges are the schedule space; refinement against an executable reference written from docs/component-status.md), burst (the same tasks really concurrent; every emitted sequence must be a path of the diagram) and service (stub components report from inside Start and from their own tasks while the real service starts/stops them, one start may fail; a watcher extension records; shared receivers must deliver to every instance); distinct = distinct event-log hash; non-trivial = more than one task live / a component report was injected",
}
