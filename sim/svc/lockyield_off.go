//go:build !lockinst

package verifsim

// Built without the lock-site overlay: there is no hook to set.
const lockInstrumented = false

func setBatchLockYield(func(site string)) {}

func setBeforeGC(func()) {}
