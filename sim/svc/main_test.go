package verifsim

import (
	"os"
	"os/signal"
	"testing"

	"verif.local/simkit"
)

func TestMain(m *testing.M) {
	// start os/signal's loop goroutine outside any bubble
	c := make(chan os.Signal, 1)
	signal.Notify(c, os.Interrupt)
	signal.Stop(c)
	os.Exit(m.Run())
}

func TestC09(t *testing.T) { simkit.Main(t, HarnessC09) }
func TestC10(t *testing.T) { simkit.Main(t, HarnessC10) }
func TestC11(t *testing.T) { simkit.Main(t, HarnessC11) }
func TestC06(t *testing.T) { simkit.Main(t, HarnessC06) }
func TestC20(t *testing.T) { simkit.Main(t, HarnessC20) }
func TestC17(t *testing.T) { simkit.Main(t, HarnessC17) }
func TestC18(t *testing.T) { simkit.Main(t, HarnessC18) }
func TestC16(t *testing.T) { simkit.Main(t, HarnessC16) }
func TestC15(t *testing.T) { simkit.Main(t, HarnessC15) }
