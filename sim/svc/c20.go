package verifsim

import (
	"context"
	"errors"
	"fmt"
	"os"
	"reflect"
	"sort"
	"strings"
	"sync"
	"syscall"
	"unsafe"

	"go.uber.org/zap"
	"go.uber.org/zap/zapcore"

	"go.opentelemetry.io/collector/component"
	"go.opentelemetry.io/collector/component/componentstatus"
	"go.opentelemetry.io/collector/confmap"
	"go.opentelemetry.io/collector/otelcol"
	"verif.local/simkit"
)

// ---- C20: the collector run loop under seeded histories of external events -----------------------------------

// simProvider serves generated configurations (scheme "sim") and owns the watcher.
type simProvider struct {
	w  *World
	mu sync.Mutex
	// next is the configuration served by the next Retrieve
	next    *topo
	nextErr error // Retrieve fails
	corrupt bool  // serve a configuration that does not validate
	// unbuildable: serve a configuration that validates but cannot be built (a connector used as exporter only): the
	// failure happens inside service.New
	unbuildable bool
	watcher     confmap.WatcherFunc
	retrieves   int
	shutdowns   int
	closes      int
	served      []string
	// nested: the served configuration holds a reference to a value of the second provider (${simv:...})
	nested bool
	// handedOut: values returned by Retrieve (each has a closer that must run exactly once)
	handedOut int
	// servedBad: the most recent Retrieve served something that cannot be brought up (error, invalid configuration)
	servedBad bool
	// failShutdown: Shutdown does its work and returns an error
	failShutdown bool
}

// valProvider (scheme "simv") serves one scalar that the main configuration refers to: every resolution then has a
// second retrieved value with its own watcher and closer, and a second provider to shut down.
type valProvider struct {
	mu        sync.Mutex
	retrieves int
	shutdowns int
	closes    int
	// failShutdown: Shutdown does its work and returns an error
	failShutdown bool
}

func (p *valProvider) Scheme() string { return "simv" }

func (p *valProvider) Shutdown(ctx context.Context) error {
	p.mu.Lock()
	p.shutdowns++
	p.mu.Unlock()
	return provShutdownErr(ctx, p.failShutdown)
}

// provShutdownErr: what a provider planned to fail in Shutdown returns (its context's error when that is done).
func provShutdownErr(ctx context.Context, fail bool) error {
	if !fail {
		return nil
	}
	if ctx.Err() != nil {
		return fmt.Errorf("sim provider: %w", ctx.Err())
	}
	return errors.New("sim provider: backend gone")
}

func (p *valProvider) Retrieve(_ context.Context, _ string, _ confmap.WatcherFunc) (*confmap.Retrieved, error) {
	p.mu.Lock()
	p.retrieves++
	p.mu.Unlock()
	return confmap.NewRetrieved("none", confmap.WithRetrievedClose(func(context.Context) error {
		p.mu.Lock()
		p.closes++
		p.mu.Unlock()
		return nil
	}))
}

func (p *simProvider) Scheme() string { return "sim" }

func (p *simProvider) Shutdown(ctx context.Context) error {
	p.mu.Lock()
	p.shutdowns++
	p.mu.Unlock()
	p.w.emit("provider-shutdown", "provider", 0, "")
	return provShutdownErr(ctx, p.failShutdown)
}

func (p *simProvider) Retrieve(_ context.Context, _ string, watcher confmap.WatcherFunc) (*confmap.Retrieved, error) {
	p.mu.Lock()
	defer p.mu.Unlock()
	p.retrieves++
	p.watcher = watcher
	p.w.mu.Lock()
	p.w.Gen++
	gen := p.w.Gen
	p.w.mu.Unlock()
	p.w.emit("provider-retrieve", "provider", gen, "")
	p.servedBad = p.nextErr != nil || p.corrupt || p.unbuildable
	if p.nextErr != nil {
		return nil, p.nextErr
	}
	p.handedOut++
	m := p.next.confMap()
	if p.nested {
		m["service"].(map[string]any)["telemetry"].(map[string]any)["metrics"].(map[string]any)["level"] = "${simv:level}"
	}
	if p.corrupt {
		// a pipeline that references an exporter which is not defined
		svc := m["service"].(map[string]any)
		pl := svc["pipelines"].(map[string]any)
		for k := range pl {
			pm := pl[k].(map[string]any)
			pm["exporters"] = append(pm["exporters"].([]any), "exp/undefined")
			break
		}
	}
	if p.unbuildable {
		cm, _ := m["connectors"].(map[string]any)
		if cm == nil {
			cm = map[string]any{}
			m["connectors"] = cm
		}
		cm["fwd/dangling"] = nil
		pl := m["service"].(map[string]any)["pipelines"].(map[string]any)
		keys := make([]string, 0, len(pl))
		for k := range pl {
			keys = append(keys, k)
		}
		sort.Strings(keys)
		pm := pl[keys[0]].(map[string]any)
		pm["exporters"] = append(pm["exporters"].([]any), "fwd/dangling")
	}
	return confmap.NewRetrieved(m, confmap.WithRetrievedClose(func(context.Context) error {
		p.mu.Lock()
		p.closes++
		p.mu.Unlock()
		return nil
	}))
}

func (t *topo) confMap() map[string]any {
	sec := map[string]map[string]any{"receivers": {}, "processors": {}, "exporters": {}, "connectors": {}, "extensions": {}}
	pl := map[string]any{}
	for _, p := range t.Pipes {
		toAny := func(xs []string) []any {
			out := make([]any, 0, len(xs))
			for _, x := range xs {
				out = append(out, x)
			}
			return out
		}
		for _, x := range p.Recv {
			if isConn(x) {
				sec["connectors"][x] = nil
			} else {
				sec["receivers"][x] = nil
			}
		}
		for _, x := range p.Proc {
			sec["processors"][x] = nil
		}
		for _, x := range p.Exp {
			if isConn(x) {
				sec["connectors"][x] = nil
			} else {
				sec["exporters"][x] = nil
			}
		}
		pl[p.Name] = map[string]any{"receivers": toAny(p.Recv), "processors": toAny(p.Proc), "exporters": toAny(p.Exp)}
	}
	var exts []any
	for _, e := range t.Exts {
		sec["extensions"][e] = nil
		exts = append(exts, e)
	}
	m := map[string]any{
		"service": map[string]any{
			"pipelines":  pl,
			"extensions": exts,
			"telemetry": map[string]any{
				"metrics": map[string]any{"level": "none"},
				"logs":    map[string]any{"level": "fatal", "output_paths": []any{}, "error_output_paths": []any{}},
			},
		},
	}
	for k, v := range sec {
		if len(v) > 0 {
			mm := map[string]any{}
			for a, b := range v {
				mm[a] = b
			}
			m[k] = mm
		}
	}
	return m
}

type c20Sim struct {
	shutFailPlanned bool // some components fail in Shutdown
	r               *simkit.Run
	w               *World
	prov            *simProvider
	vprov           *valProvider
	col             *otelcol.Collector
	cancel          context.CancelFunc
	run             *simkit.Task
	states          []otelcol.State
	reachedRunning  bool
	stopReason      string // first stop reason delivered after Running was reached
	stopAtEvent     int
	expectRunErr    bool
	reloadsOK       int
	helper          []*simkit.Task
	notifs, sighups int
	initialFails    bool
	watchTasks      []*simkit.Task
}

func nopLogging() []zap.Option {
	return []zap.Option{zap.WrapCore(func(zapcore.Core) zapcore.Core { return zapcore.NewNopCore() })}
}

func runC20(r *simkit.Run) {
	tp := r.Tape
	w := NewWorld(r)
	w.Gen = 0
	genValid := func() *topo {
		for i := 0; i < 8; i++ {
			t := genTopo(tp, true)
			if t.Invalid == "" {
				return &t
			}
		}
		t := topo{Pipes: []pipeCfg{{Name: "logs/a", Sig: sigLogs, Recv: []string{"rcv/1"}, Exp: []string{"exp/1"}}}}
		return &t
	}
	prov := &simProvider{w: w, next: genValid(), nested: tp.Chance(1, 2)}
	vprov := &valProvider{}
	s := &c20Sim{r: r, w: w, prov: prov, vprov: vprov}
	steps := tp.Range(3, 18)
	// plans: which components park or fail (applies to every generation)
	parkish := tp.Chance(1, 2)
	if tp.Chance(1, 4) {
		// both providers fail in Shutdown (with their context's error when that is done by then)
		prov.failShutdown, vprov.failShutdown = true, true
		r.Count("fault.provider_shutdown_failure")
	}
	r.Sample = map[string]any{"initial": prov.next, "steps": steps, "parking_components": parkish, "nested_provider_reference": prov.nested, "providers_fail_in_shutdown": prov.failShutdown}
	if parkish {
		for _, k := range compKeysOf(prov.next) {
			if tp.Chance(1, 4) {
				if tp.Chance(1, 2) {
					w.plan(k).ParkStart = true
				} else {
					w.plan(k).ParkShutdown = true
				}
			}
		}
	}
	if tp.Chance(1, 5) {
		// components that fail in Shutdown (every generation they belong to): the failure is reported, the other
		// components are shut down all the same; a reload that retires such a service fails for that reason
		ks := compKeysOf(prov.next)
		for i, n := 0, tp.Range(1, 2); i < n && len(ks) > 0; i++ {
			w.plan(ks[tp.Draw(len(ks))]).FailShutdown = true
		}
		s.shutFailPlanned = true
		r.Count("fault.component_shutdown_failure_planned")
	}
	initialFails := tp.Chance(1, 12)
	s.initialFails = initialFails
	if initialFails {
		switch tp.Draw(3) {
		case 0:
			prov.corrupt = true
		case 1:
			prov.nextErr = errors.New("sim provider: cannot retrieve")
		default:
			ks := compKeysOf(prov.next)
			w.failStartAt[1] = ks[tp.Draw(len(ks))]
		}
		r.Count("fault.initial_config_fails")
	}
	factories := func() (otelcol.Factories, error) {
		return otelcol.Factories{Receivers: w.receiverFactories(), Processors: w.processorFactories(), Exporters: w.exporterFactories(),
			Connectors: w.connectorFactories(), Extensions: w.extensionFactories(nil)}, nil
	}
	col, err := otelcol.NewCollector(otelcol.CollectorSettings{
		BuildInfo: component.NewDefaultBuildInfo(),
		Factories: factories,
		ConfigProviderSettings: otelcol.ConfigProviderSettings{ResolverSettings: confmap.ResolverSettings{
			URIs: []string{"sim:cfg"},
			ProviderFactories: []confmap.ProviderFactory{confmap.NewProviderFactory(func(confmap.ProviderSettings) confmap.Provider { return prov }),
				confmap.NewProviderFactory(func(confmap.ProviderSettings) confmap.Provider { return vprov })},
		}},
		SkipSettingGRPCLogger: true,
		LoggingOptions:        nopLogging(),
	})
	if err != nil {
		panic(err)
	}
	s.col = col
	ctx, cancel := context.WithCancel(context.Background())
	s.cancel = cancel
	defer cancel()
	s.run = simkit.Go("Run", func(t *simkit.Task) {
		defer func() {
			if p := recover(); p != nil {
				// Run must return an error, whatever the configuration: a panic on its goroutine is reported as such
				r.Failf("result", "run-panicked", "Run panicked instead of returning: %v", p)
				t.Err = fmt.Errorf("Run panicked: %v", p)
			}
		}()
		t.Err = col.Run(ctx)
	})
	r.Settle()
	s.sample("start")

	for step := 0; step < steps && !r.Failed() && !s.run.Done(); step++ {
		var ch []simkit.Choice
		for _, id := range w.gate.Parked() {
			id := id
			ch = append(ch, simkit.Choice{Name: "release:" + id, W: 4, Fire: func() { w.gate.Release(id, nil) }})
		}
		if s.stopReason == "" || tp.Chance(1, 3) {
			ch = append(ch,
				simkit.Choice{Name: "config-change", W: 3, Fire: func() { s.configChange(genValid(), 0) }},
				simkit.Choice{Name: "config-change:invalid", W: 1, Fire: func() { s.configChange(genValid(), 1) }},
				simkit.Choice{Name: "config-change:start-fails", W: 1, Fire: func() { s.configChange(genValid(), 2) }},
				simkit.Choice{Name: "config-change:cannot-be-built", W: 1, Fire: func() { s.configChange(genValid(), 3) }},
				simkit.Choice{Name: "config-watch-error", W: 1, Fire: func() {
					if s.watchNotify(errors.New("sim: watch failed")) {
						s.stop("config-watch-error")
					}
				}},
				simkit.Choice{Name: "sighup", W: 2, Fire: func() {
					s.prepareNext(genValid(), 0)
					r.Count("event.sighup")
					if !col.VerifSendSignal(syscall.SIGHUP) {
						r.Count("probe.signal_dropped_buffer_full")
					} else {
						s.sighups++
					}
				}},
				simkit.Choice{Name: "sigterm", W: 1, Fire: func() {
					if col.VerifSendSignal(syscall.SIGTERM) {
						s.stop("sigterm")
					} else {
						r.Count("probe.signal_dropped_buffer_full")
					}
				}},
				simkit.Choice{Name: "sigint", W: 1, Fire: func() {
					if col.VerifSendSignal(os.Interrupt) {
						s.stop("sigint")
					} else {
						r.Count("probe.signal_dropped_buffer_full")
					}
				}},
				simkit.Choice{Name: "shutdown-call", W: 2, Fire: func() { s.shutdownCall() }},
				simkit.Choice{Name: "ctx-cancel", W: 1, Fire: func() { s.stop("ctx-cancel"); cancel() }},
				simkit.Choice{Name: "async-error", W: 1, Fire: func() { s.asyncError() }},
			)
		}
		if len(ch) == 0 {
			break
		}
		ev := r.Pick(ch)
		s.sample(ev)
	}
	// ---- quiet phase: release everything that is parked; if a stop reason was delivered, Run must return
	for i := 0; i < 200 && !r.Failed(); i++ {
		ids := w.gate.Parked()
		if len(ids) == 0 {
			break
		}
		id := ids[0]
		r.Fire("quiet-release:"+id, func() { w.gate.Release(id, nil) })
		s.sample("quiet")
	}
	if r.Failed() {
		s.cleanup()
		return
	}
	if s.stopReason == "" && !s.run.Done() {
		// end the run with a plain shutdown request
		r.Fire("final-shutdown-call", func() { s.shutdownCall() })
		s.sample("final")
		for i := 0; i < 200; i++ {
			ids := w.gate.Parked()
			if len(ids) == 0 {
				break
			}
			r.Fire("quiet-release:"+ids[0], func() { w.gate.Release(ids[0], nil) })
			s.sample("quiet")
		}
	}
	s.finalChecks()
	s.cleanup()
}

func (s *c20Sim) stop(reason string) {
	if s.stopReason == "" && !s.initialFails {
		s.stopReason = reason
		s.stopAtEvent = s.r.Events
	}
	s.r.Count("event.stop:" + reason)
}

// prepareNext sets what the provider will serve at the next Retrieve.
func (s *c20Sim) prepareNext(t *topo, kind int) {
	p := s.prov
	p.mu.Lock()
	defer p.mu.Unlock()
	p.next = t
	p.corrupt = false
	p.unbuildable = false
	p.nextErr = nil
	s.w.mu.Lock()
	delete(s.w.failStartAt, s.w.Gen+1)
	s.w.mu.Unlock()
	switch kind {
	case 1:
		p.corrupt = true
		s.r.Count("fault.new_config_invalid")
	case 2:
		ks := compKeysOf(t)
		k := ks[s.r.Tape.Draw(len(ks))]
		s.w.mu.Lock()
		s.w.failStartAt[s.w.Gen+1] = k // only the generation served by the next Retrieve
		s.w.mu.Unlock()
		s.r.Count("fault.new_config_start_fails")
	case 3:
		p.unbuildable = true
		s.r.Count("fault.new_config_cannot_be_built")
	}
}

func (s *c20Sim) configChange(t *topo, kind int) {
	s.prepareNext(t, kind)
	s.r.Count("event.config_change")
	s.watchNotify(nil)
}

// watchNotify fires the watcher from a task: the resolver's channel has capacity 1, a second pending
// notification parks the task, never the scheduler.
func (s *c20Sim) watchNotify(err error) bool {
	s.prov.mu.Lock()
	wf := s.prov.watcher
	shut := s.prov.shutdowns
	s.prov.mu.Unlock()
	if wf == nil || shut > 0 {
		return false // never call the watcher after the provider's Shutdown (provider contract)
	}
	if err != nil {
		s.r.Count("fault.config_watch_error")
	}
	// Never have more than one notification that the run loop may not have consumed yet: the resolver's channel
	// buffers one, a second sender would block, and for ever if the loop ends without shutting the provider down
	// (failed reload). Consumed notifications are bounded from below by the Retrieve calls not explained by SIGHUPs.
	s.prov.mu.Lock()
	consumed := s.prov.retrieves - 1 - s.sighups
	s.prov.mu.Unlock()
	if consumed < 0 {
		consumed = 0
	}
	// One more may be in flight behind it: its sender (a provider goroutine) blocks in the resolver until the loop has
	// taken the first, e.g. a watch error raised while a change notification is still waiting for a busy run loop.
	if s.notifs-consumed > 1 {
		s.r.Count("probe.two_notifications_already_pending")
		return false
	}
	if s.notifs-consumed > 0 {
		s.r.Count("probe.notification_behind_a_pending_one")
	}
	s.notifs++
	s.watchTasks = append(s.watchTasks, simkit.Go("watch-notify", func(*simkit.Task) {
		defer func() { _ = recover() }() // the channel is closed by the provider shutdown
		wf(&confmap.ChangeEvent{Error: err})
	}))
	return true
}

func (s *c20Sim) shutdownCall() {
	st := s.col.GetState()
	s.r.Count("event.shutdown_call:" + st.String())
	t := simkit.Go("shutdown-call", func(t *simkit.Task) {
		defer func() {
			if p := recover(); p != nil {
				t.Val = fmt.Sprint(p)
			}
		}()
		s.col.Shutdown()
	})
	s.helper = append(s.helper, t)
	if !s.initialFails && s.stopReason == "" && st != otelcol.StateClosed {
		s.stopReason = "shutdown-call@" + st.String()
		s.stopAtEvent = s.r.Events
	}
}

func (s *c20Sim) asyncError() {
	// a started component reports a fatal error from its own goroutine
	s.w.mu.Lock()
	var keys []string
	for k, h := range s.w.hosts {
		if _, ok := h.(componentstatus.Reporter); ok && !strings.HasPrefix(k, "extension:") {
			keys = append(keys, k)
		}
	}
	s.w.mu.Unlock()
	var live []string
	for _, k := range keys {
		if b := s.w.latest(k); b != nil && b.live {
			live = append(live, k)
		}
	}
	sort.Strings(live)
	if len(live) == 0 {
		return
	}
	k := live[s.r.Tape.Draw(len(live))]
	s.r.Count("fault.async_fatal_error")
	s.stop("async-error")
	s.w.mu.Lock()
	h := s.w.hosts[k]
	s.w.mu.Unlock()
	// what the component has reported before (every status below leads to FatalError in the documented diagram)
	history := s.r.Tape.Weighted(3, 1, 1, 1)
	if history > 0 {
		s.r.Count("fault.async_fatal_error_after_recoverable_error_history")
	}
	s.helper = append(s.helper, simkit.Go("async-error", func(*simkit.Task) {
		switch history {
		case 1:
			componentstatus.ReportStatus(h, componentstatus.NewRecoverableErrorEvent(errors.New("sim: recoverable")))
		case 2:
			componentstatus.ReportStatus(h, componentstatus.NewRecoverableErrorEvent(errors.New("sim: recoverable")))
			componentstatus.ReportStatus(h, componentstatus.NewEvent(componentstatus.StatusOK))
		case 3:
			componentstatus.ReportStatus(h, componentstatus.NewRecoverableErrorEvent(errors.New("sim: recoverable")))
			componentstatus.ReportStatus(h, componentstatus.NewRecoverableErrorEvent(errors.New("sim: recoverable again")))
		}
		componentstatus.ReportStatus(h, componentstatus.NewFatalErrorEvent(errors.New("sim: fatal")))
	}))
}

func (w *World) latest(key string) *stubBase {
	w.mu.Lock()
	defer w.mu.Unlock()
	var best *stubBase
	for _, b := range w.comps {
		if (b.key == key || b.rkey == key) && (best == nil || b.gen > best.gen) {
			best = b
		}
	}
	return best
}

func (s *c20Sim) sample(ev string) {
	r := s.r
	st := s.col.GetState()
	if len(s.states) > 0 {
		prev := s.states[len(s.states)-1]
		if prev == otelcol.StateClosed && st != otelcol.StateClosed {
			r.Failf("state", "left-closed", "collector state went from Closed to %s", st)
		}
	}
	s.states = append(s.states, st)
	if st == otelcol.StateRunning {
		s.reachedRunning = true
	}
	for _, t := range s.helper {
		if t.Done() && t.Val != nil {
			r.Failf("shutdown-call", "panicked", "Collector.Shutdown() panicked: %v", t.Val)
			t.Val = nil
		}
	}
	// overlap of generations: at the first create of generation g every older component must have been shut down
	s.checkOverlap()
	np := len(s.w.gate.Parked())
	if np > 0 && !strings.HasPrefix(ev, "release") {
		r.Nontrivial = true // an external event arrived while a component's Start/Shutdown was parked
		r.Count("probe.event_while_component_parked")
	}
	r.State(fmt.Sprintf("state=%s parked=%d runDone=%v stop=%v", st, np, s.run.Done(), s.stopReason != ""), evKind(ev))
}

func (s *c20Sim) checkOverlap() {
	log := s.w.Log()
	firstCreate := map[int]int{}
	for _, e := range log {
		if e.Kind == "create" {
			if _, ok := firstCreate[e.Gen]; !ok {
				firstCreate[e.Gen] = e.Seq
			}
		}
	}
	s.w.mu.Lock()
	comps := make([]*stubBase, 0, len(s.w.comps))
	for _, b := range s.w.comps {
		comps = append(comps, b)
	}
	s.w.mu.Unlock()
	sort.Slice(comps, func(i, j int) bool {
		return comps[i].key+fmt.Sprint(comps[i].gen) < comps[j].key+fmt.Sprint(comps[j].gen)
	})
	for g, seq := range firstCreate {
		for _, b := range comps {
			if b.gen >= g {
				continue
			}
			// the shutdown of b must have returned before seq
			done := false
			for _, e := range log {
				if e.Seq >= seq {
					break
				}
				if e.Gen == b.gen && e.Comp == b.k() && (e.Kind == "stopped" || e.Kind == "shutdown-fail") {
					done = true
				}
			}
			if !done {
				s.r.Failf("overlap", "two-generations-live", "component %s of configuration %d was created while %s of configuration %d had not been shut down", firstCompOfGen(log, g), g, b.k(), b.gen)
				return
			}
		}
	}
}

func firstCompOfGen(log []Ev, g int) string {
	for _, e := range log {
		if e.Kind == "create" && e.Gen == g {
			return e.Comp
		}
	}
	return "?"
}

func (s *c20Sim) finalChecks() {
	r := s.r
	st := s.col.GetState()
	runErr := s.run.Err
	r.Logf("final: state=%s runDone=%v runErr=%s stop=%s reachedRunning=%v", st, s.run.Done(), simkit.ShortErr(runErr), s.stopReason, s.reachedRunning)
	for _, t := range s.helper {
		if !t.Done() {
			if t.Name == "shutdown-call" {
				r.Failf("shutdown-call", "blocked", "a Collector.Shutdown() call never returned")
			}
		}
	}
	if !s.run.Done() {
		if s.stopReason != "" {
			r.Failf("liveness", "run-did-not-return/"+reasonClass(s.stopReason), "stop reason %q was delivered (event %d) after the collector reached Running, every parked component was released, but Run has not returned; state=%s", s.stopReason, s.stopAtEvent, st)
		} else {
			r.Failf("liveness", "run-did-not-return/final-shutdown", "Run has not returned after a Shutdown() request on an idle collector; state=%s", st)
		}
		return
	}
	if !s.initialFails {
		// the state is sampled at quiescence only: a run that passed through Running inside one step still reached it
		s.reachedRunning = true
	}
	reloadFailed := runErr != nil && (strings.Contains(runErr.Error(), "failed to setup configuration components") || strings.Contains(runErr.Error(), "failed to shutdown the retiring config"))
	// every component that was started has been shut down (all generations), exactly once
	s.w.mu.Lock()
	comps := make([]*stubBase, 0, len(s.w.comps))
	for _, b := range s.w.comps {
		comps = append(comps, b)
	}
	s.w.mu.Unlock()
	sort.Slice(comps, func(i, j int) bool {
		return comps[i].key+fmt.Sprint(comps[i].gen) < comps[j].key+fmt.Sprint(comps[j].gen)
	})
	for _, b := range comps {
		if b.nStart > 0 && b.nShutdown == 0 {
			r.Failf("cleanup", "started-component-not-shut-down", "%s (configuration %d) was started but never shut down; Run returned %v", b.k(), b.gen, runErr)
		}
		if b.nShutdown > 1 {
			r.Failf("cleanup", "component-shut-down-twice", "%s (configuration %d) was shut down %d times", b.k(), b.gen, b.nShutdown)
		}
		if b.nStart > 1 {
			r.Failf("cleanup", "component-started-twice", "%s (configuration %d) was started %d times", b.k(), b.gen, b.nStart)
		}
	}
	if s.reachedRunning && !reloadFailed {
		if st != otelcol.StateClosed {
			r.Failf("state", "not-closed-at-end", "Run returned (%v) after stop reason %q but the state is %s", runErr, s.stopReason, st)
		}
		s.prov.mu.Lock()
		sh := s.prov.shutdowns
		s.prov.mu.Unlock()
		if sh != 1 {
			r.Failf("provider", fmt.Sprintf("shut-down-%d-times", sh), "the configuration provider was shut down %d times", sh)
		}
		s.vprov.mu.Lock()
		vsh := s.vprov.shutdowns
		s.vprov.mu.Unlock()
		if vsh != 1 {
			r.Failf("provider", fmt.Sprintf("shut-down-%d-times", vsh), "the second configuration provider (scheme simv) was shut down %d times", vsh)
		}
		// (not part of the property's statement, only counted: every retrieved value closed exactly once)
		s.prov.mu.Lock()
		out, cl := s.prov.handedOut, s.prov.closes
		s.prov.mu.Unlock()
		s.vprov.mu.Lock()
		vout, vcl := s.vprov.retrieves, s.vprov.closes
		s.vprov.mu.Unlock()
		if cl != out || vcl != vout {
			r.Count("probe.retrieved_value_close_count_mismatch")
		}
	}
	// a reload may only fail for a reason: the provider could not serve, served something invalid, or a component of
	// the new configuration was planned to fail in Start
	if reloadFailed && !s.initialFails {
		s.prov.mu.Lock()
		bad := s.prov.servedBad
		s.prov.mu.Unlock()
		s.w.mu.Lock()
		planned := s.w.failStartAt[s.w.Gen] != ""
		s.w.mu.Unlock()
		if !bad && !planned && !(s.shutFailPlanned && strings.Contains(runErr.Error(), "failed to shutdown the retiring config")) {
			r.Failf("reload", "failed-without-cause", "Run returned %v although the provider served a valid configuration and no component was planned to fail", runErr)
		}
	}
	if s.initialFails && runErr == nil {
		r.Failf("result", "failed-start-returned-nil", "the initial configuration could not be brought up but Run returned nil")
	}
	if s.initialFails && st != otelcol.StateClosed {
		r.Failf("state", "not-closed-after-failed-start", "the initial configuration could not be brought up; Run returned %v but the state is %s", runErr, st)
	}
}

func reasonClass(s string) string {
	if i := strings.IndexByte(s, '@'); i > 0 {
		return s
	}
	return s
}

func (s *c20Sim) cleanup() {
	// make sure the bubble can end: cancel, release, shutdown
	s.cancel()
	for i := 0; i < 200; i++ {
		s.r.Settle()
		if s.w.gate.ReleaseAll(nil) == 0 {
			break
		}
	}
	if !s.run.Done() {
		s.col.Shutdown()
		s.r.Settle()
	}
	// pending watcher notifications: a task blocked on the watcher channel is released by the resolver's close at
	// shutdown (send on a closed channel panics -> recovered). After a FAILED reload Run returns without shutting the
	// provider down and a sender would stay blocked for ever: take its notification ourselves so that the bubble can end.
	blocked := func() bool {
		for _, t := range s.watchTasks {
			if !t.Done() {
				return true
			}
		}
		return false
	}
	if s.run.Done() && blocked() {
		f := reflect.ValueOf(s.col).Elem().FieldByName("configProvider")
		cp := (*otelcol.ConfigProvider)(unsafe.Pointer(f.Pointer()))
		for i := 0; i < 4 && blocked(); i++ {
			select {
			case <-cp.Watch():
			default:
			}
			s.r.Settle()
		}
	}
}

var HarnessC20 = simkit.Harness{
	Prop: "C20", Name: "svc/c20", Run: runC20, StepTimeout: 20e9, HashInsensitive: true,
	Real: append([]string{"otelcol.Collector (NewCollector, Run loop, reloadConfiguration, setupConfigurationComponents, Shutdown)", "otelcol.ConfigProvider + confmap.Resolver (watcher channel, closers)", "otelcol config unmarshalling and validation", "graph.Host fatal-error path to the async error channel"}, svcReal...),
	Stub: append([]string{"confmap.Provider 'sim' serving generated configurations and owning the watcher", "OS signals (delivered through the tag-guarded VerifSendSignal hook)"}, svcStub...),
	Rule: "one run = one collector Run as a task in the bubble with a generated initial configuration (occasionally invalid / unretrievable / failing to start) and a tape-drawn history of 3-18 external events: config change (valid, invalid, failing to start), config-watch error, SIGHUP, SIGTERM, SIGINT, Shutdown() calls from tasks, context cancellation, asynchronous fatal error from a started component (which may have reported recoverable errors before), and releases of component Start/Shutdown calls that park; in 1 run in 5 one or two components fail in Shutdown (their errors wrap nothing, a deadline or cancellation error of their own, or a permanent error) (so that events accumulate while a reload is in progress); followed by a quiet phase in which everything parked is released; distinct = distinct event-log hash; non-trivial = an external event arrived while a component's Start/Shutdown was parked",
}
