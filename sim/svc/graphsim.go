package verifsim

import (
	"context"
	"errors"
	"fmt"
	"sort"
	"strings"

	"go.uber.org/zap/zapcore"

	"go.opentelemetry.io/collector/component"
	"go.opentelemetry.io/collector/config/configtelemetry"
	"go.opentelemetry.io/collector/confmap"
	"go.opentelemetry.io/collector/pipeline"
	"go.opentelemetry.io/collector/service"
	"go.opentelemetry.io/collector/service/extensions"
	"go.opentelemetry.io/collector/service/pipelines"
	"go.opentelemetry.io/collector/service/telemetry"
	"verif.local/simkit"
)

// ---- generated service topologies and their reference semantics ---------------------------------------------

type pipeCfg struct {
	Name string   `json:"name"` // "<signal>/<x>"
	Sig  string   `json:"signal"`
	Recv []string `json:"receivers"`
	Proc []string `json:"processors"`
	Exp  []string `json:"exporters"`
}

type topo struct {
	Pipes   []pipeCfg           `json:"pipelines"`
	Exts    []string            `json:"extensions"`
	ExtDeps map[string][]string `json:"extension_dependencies,omitempty"`
	// RtMode documents how the routing connector (type "rt") selects destinations in this run
	RtMode int `json:"routing_connector_mode"`
	// Rnd documents the support matrix drawn for connector type "rnd" (rows: from logs, traces, metrics, profiles)
	Rnd string `json:"rnd_connector_matrix,omitempty"`
	// reference verdict
	Invalid string `json:"invalid,omitempty"`
	// DupExt: service::extensions lists one extension twice
	DupExt bool `json:"extension_listed_twice,omitempty"`
	// ErrFlavour: what a failing stub's error wraps besides its own message (0 nothing, 1 a deadline error of its own,
	// 2 a cancellation of its own, 3 a permanent consumer error)
	ErrFlavour int `json:"failing_components_error_flavour,omitempty"`
	// ShutCtxDone (C10): service.Shutdown is called with a context that is already cancelled; a component whose
	// Shutdown fails then fails with (a wrap of) that context's error
	ShutCtxDone bool `json:"shutdown_context_done,omitempty"`
}

func isConn(id string) bool {
	switch typeOf(id) {
	case "fwd", "conv", "l2m", "forward", "asym", "rnd", "rt":
		return true
	}
	return false
}

func pick(tp *simkit.Tape, pool []string, n int) []string {
	var out []string
	seen := map[string]bool{}
	for i := 0; i < n; i++ {
		x := pool[tp.Draw(len(pool))]
		if !seen[x] {
			seen[x] = true
			out = append(out, x)
		}
	}
	return out
}

func reverseStrings(xs []string) {
	for i, j := 0, len(xs)-1; i < j; i, j = i+1, j-1 {
		xs[i], xs[j] = xs[j], xs[i]
	}
}

func genTopo(tp *simkit.Tape, small bool) topo {
	t := topo{ExtDeps: map[string][]string{}}
	maxP := 5
	if small {
		maxP = 3
	}
	np := tp.Range(1, maxP)
	// (names that differ only by letter case are different components)
	recvPool := []string{"rcv/1", "rcv/2", "shr/1", "rcv/x", "rcv/X"}
	procPool := []string{"proc/1", "proc/2", "ropr/1"}
	expPool := []string{"exp/1", "exp/2", "mexp/1", "exp/x", "exp/X"}
	connPool := []string{"fwd/1", "conv/1", "conv/2", "l2m/1", "forward/1", "asym/1", "rnd/1", "rnd/2", "rt/1", "rt/1"}
	rtMode = tp.Draw(10) // 7: varies per payload
	stubErrFlavour = tp.Weighted(3, 1, 1, 1)
	// the support matrix of connector type "rnd" in this run: every cell drawn on its own (about 2 in 3 supported)
	bits := tp.Draw(1 << 16)
	bits2 := tp.Draw(1 << 16)
	for i := 0; i < 4; i++ {
		for j := 0; j < 4; j++ {
			k := uint(i*4 + j)
			rndMatrix[i][j] = bits>>k&1 == 1 || bits2>>k&1 == 1 && k%2 == 0
		}
	}
	if !small && tp.Chance(1, 10) {
		// router-focused topology: one source pipeline feeds a routing connector, which picks among 2-4 pipelines of the
		// same signal - a different selection for every payload (mode 7), several payloads per run. Pipeline names may
		// contain "/" ("a", "b" and "a/b" are three pipelines).
		sig := drawSignal(tp)
		rtMode = 7
		src := pipeCfg{Name: sig + "/src", Sig: sig, Recv: pick(tp, recvPool[:2], tp.Range(1, 2)), Proc: pick(tp, procPool, tp.Draw(2)), Exp: []string{"rt/1"}}
		if tp.Chance(1, 3) {
			src.Exp = append(src.Exp, "exp/1")
		}
		t.Pipes = append(t.Pipes, src)
		for _, nm := range pick(tp, []string{"a", "b", "a/b", "b/a", "a/b/c", "c", "a/b"}, tp.Range(2, 5)) {
			t.Pipes = append(t.Pipes, pipeCfg{Name: sig + "/" + nm, Sig: sig, Recv: []string{"rt/1"}, Proc: pick(tp, procPool, tp.Draw(3)), Exp: pick(tp, expPool, tp.Range(1, 2))})
		}
		if tp.Chance(1, 3) {
			// and a pipeline of another signal under one of the names in use
			other := drawSignal(tp)
			if other != sig {
				t.Pipes = append(t.Pipes, pipeCfg{Name: other + "/a", Sig: other, Recv: []string{"rcv/2"}, Exp: []string{"exp/2"}})
			}
		}
		t.RtMode = rtMode
		t.ErrFlavour = stubErrFlavour
		t.Rnd = "(unused)"
		t.Invalid = t.validate()
		return t
	}
	useConn := tp.Chance(2, 3)
	names := "abcde"
	for i := 0; i < np; i++ {
		sig := drawSignal(tp)
		p := pipeCfg{Name: fmt.Sprintf("%s/%c", sig, names[i]), Sig: sig}
		p.Recv = pick(tp, recvPool, tp.Range(1, 2))
		p.Proc = pick(tp, procPool, tp.Draw(4))
		p.Exp = pick(tp, expPool, tp.Range(1, 2))
		t.Pipes = append(t.Pipes, p)
	}
	if useConn && np >= 2 {
		// wire connectors between pipelines; mostly forward edges (i -> j, i<j) so that most topologies are valid
		nc := tp.Range(1, 4)
		var prev string
		for k := 0; k < nc; k++ {
			c := connPool[tp.Draw(len(connPool))]
			if prev != "" && tp.Chance(1, 3) {
				c = prev // the same connector wired between several pipeline pairs
			}
			prev = c
			i := tp.Draw(np)
			j := tp.Draw(np)
			if i == j {
				continue
			}
			if i > j && !tp.Chance(1, 6) {
				i, j = j, i
			}
			if !contains(t.Pipes[i].Exp, c) {
				t.Pipes[i].Exp = append(t.Pipes[i].Exp, c)
			}
			if !contains(t.Pipes[j].Recv, c) {
				t.Pipes[j].Recv = append(t.Pipes[j].Recv, c)
			}
		}
		if tp.Chance(1, 10) {
			// dangling usage: exporter side only
			c := connPool[tp.Draw(len(connPool))]
			i := tp.Draw(np)
			if !contains(t.Pipes[i].Exp, c) {
				t.Pipes[i].Exp = append(t.Pipes[i].Exp, c)
			}
		}
	}
	// the order within a receivers / exporters list means nothing: half of the pipelines list theirs the other way
	// round (connectors first)
	for i := range t.Pipes {
		if tp.Chance(1, 2) {
			reverseStrings(t.Pipes[i].Recv)
		}
		if tp.Chance(1, 2) {
			reverseStrings(t.Pipes[i].Exp)
		}
	}
	ne := tp.Draw(4)
	for i := 0; i < ne; i++ {
		t.Exts = append(t.Exts, fmt.Sprintf("ext/%d", i+1))
	}
	for i := 1; i < ne; i++ {
		// dependencies only on lower-numbered extensions: acyclic. One, or (1 in 3) every lower-numbered one with
		// probability 1/2; (1 in 4) one of them declared twice - Dependencies() returns a list, not a set
		if tp.Chance(1, 2) {
			t.ExtDeps[t.Exts[i]] = append(t.ExtDeps[t.Exts[i]], t.Exts[tp.Draw(i)])
		}
		if tp.Chance(1, 3) {
			for j := 0; j < i; j++ {
				if tp.Chance(1, 2) && !contains(t.ExtDeps[t.Exts[i]], t.Exts[j]) {
					t.ExtDeps[t.Exts[i]] = append(t.ExtDeps[t.Exts[i]], t.Exts[j])
				}
			}
		}
		if d := t.ExtDeps[t.Exts[i]]; len(d) > 0 && tp.Chance(1, 4) {
			dup := d[tp.Draw(len(d))]
			at := tp.Draw(len(d) + 1)
			d = append(d[:at:at], append([]string{dup}, d[at:]...)...)
			t.ExtDeps[t.Exts[i]] = d
		}
	}
	// the order in which service::extensions lists them means nothing for the start order: a tape-drawn permutation
	for i := ne - 1; i > 0; i-- {
		j := tp.Draw(i + 1)
		t.Exts[i], t.Exts[j] = t.Exts[j], t.Exts[i]
	}
	if ne > 0 && tp.Chance(1, 8) {
		// service::extensions names one extension twice (no validation objects): still one lifetime per extension
		t.Exts = append(t.Exts, t.Exts[tp.Draw(ne)])
		t.DupExt = true
	}
	for i := 0; i < 4; i++ {
		for j := 0; j < 4; j++ {
			if rndMatrix[i][j] {
				t.Rnd += "x"
			} else {
				t.Rnd += "."
			}
		}
		t.Rnd += " "
	}
	t.RtMode = rtMode
	t.ErrFlavour = stubErrFlavour
	t.Invalid = t.validate()
	return t
}

func contains(xs []string, x string) bool {
	for _, y := range xs {
		if y == x {
			return true
		}
	}
	return false
}

// validate is the reference's verdict on connector usage: "" when valid, else the reason.
func (t *topo) validate() string {
	conns := map[string]bool{}
	for _, p := range t.Pipes {
		for _, r := range p.Recv {
			if isConn(r) {
				conns[r] = true
			}
		}
		for _, e := range p.Exp {
			if isConn(e) {
				conns[e] = true
			}
		}
	}
	connList := make([]string, 0, len(conns))
	for c := range conns {
		connList = append(connList, c)
	}
	sort.Strings(connList)
	for _, c := range connList {
		for _, p := range t.Pipes {
			if contains(p.Exp, c) {
				ok := false
				for _, q := range t.Pipes {
					if contains(q.Recv, c) && connSupports(typeOf(c), p.Sig, q.Sig) {
						ok = true
					}
				}
				if !ok {
					return fmt.Sprintf("connector %s is an exporter of %s but no pipeline it supports lists it as receiver", c, p.Name)
				}
			}
			if contains(p.Recv, c) {
				ok := false
				for _, q := range t.Pipes {
					if contains(q.Exp, c) && connSupports(typeOf(c), q.Sig, p.Sig) {
						ok = true
					}
				}
				if !ok {
					return fmt.Sprintf("connector %s is a receiver of %s but no pipeline it supports lists it as exporter", c, p.Name)
				}
			}
		}
	}
	// cycles among pipelines through supported connector pairs
	n := len(t.Pipes)
	adj := make([][]int, n)
	for i, p := range t.Pipes {
		for _, c := range p.Exp {
			if !isConn(c) {
				continue
			}
			for j, q := range t.Pipes {
				if contains(q.Recv, c) && connSupports(typeOf(c), p.Sig, q.Sig) {
					adj[i] = append(adj[i], j)
				}
			}
		}
	}
	color := make([]int, n)
	var dfs func(i int) bool
	dfs = func(i int) bool {
		color[i] = 1
		for _, j := range adj[i] {
			if color[j] == 1 || (color[j] == 0 && dfs(j)) {
				return true
			}
		}
		color[i] = 2
		return false
	}
	for i := 0; i < n; i++ {
		if color[i] == 0 && dfs(i) {
			return "connector cycle"
		}
	}
	return ""
}

// routes computes, for a payload injected at receiver recv on signal sig, the expected (exporter key, trail)
// multiset by walking the configuration (independent of the graph package).
func (t *topo) routes(recv, sig, id string) []delivery {
	var out []delivery
	var walk func(p pipeCfg, trail string)
	walk = func(p pipeCfg, trail string) {
		for _, pr := range p.Proc {
			if typeOf(pr) == "proc" {
				trail += ">" + pr
			}
		}
		for _, e := range p.Exp {
			if !isConn(e) {
				out = append(out, delivery{Comp: "exporter:" + e + ":" + p.Sig, Trail: trail})
				continue
			}
			// one connector instance per (from,to) signal pair; it forwards once to the fan-out of all pipelines
			// of signal `to` that list it as receiver
			for _, to := range allSignals {
				if !connSupports(typeOf(e), p.Sig, to) {
					continue
				}
				if typeOf(e) == "rt" {
					// the routing connector sends to the groups of routeSelection over its attached pipelines sorted by id
					var att []pipeCfg
					for _, q := range t.Pipes {
						if q.Sig == to && contains(q.Recv, e) {
							att = append(att, q)
						}
					}
					sort.Slice(att, func(i, j int) bool { return att[i].Name < att[j].Name })
					for _, grp := range routeSelection(rtEffective(rtMode, id), len(att)) {
						for _, k := range grp {
							walk(att[k], trail+">"+e+"["+p.Sig+"->"+to+"]")
						}
					}
					continue
				}
				for _, q := range t.Pipes {
					if q.Sig == to && contains(q.Recv, e) {
						if typeOf(e) == "forward" {
							walk(q, trail) // the real forward connector leaves no trace on the payload
						} else {
							walk(q, trail+">"+e+"["+p.Sig+"->"+to+"]")
						}
					}
				}
			}
		}
	}
	for _, p := range t.Pipes {
		if p.Sig == sig && contains(p.Recv, recv) {
			walk(p, "")
		}
	}
	return out
}

func (t *topo) serviceConfig() service.Config {
	pc := pipelines.Config{}
	for _, p := range t.Pipes {
		var name string
		if i := strings.IndexByte(p.Name, '/'); i >= 0 {
			name = p.Name[i+1:]
		}
		id := pipeline.NewIDWithName(pipeSignal(p.Sig), name)
		cfg := &pipelines.PipelineConfig{}
		for _, r := range p.Recv {
			cfg.Receivers = append(cfg.Receivers, mustID(r))
		}
		for _, r := range p.Proc {
			cfg.Processors = append(cfg.Processors, mustID(r))
		}
		for _, r := range p.Exp {
			cfg.Exporters = append(cfg.Exporters, mustID(r))
		}
		pc[id] = cfg
	}
	var exts extensions.Config
	for _, e := range t.Exts {
		exts = append(exts, mustID(e))
	}
	return service.Config{
		Extensions: exts,
		Pipelines:  pc,
		Telemetry: telemetry.Config{
			Logs:    telemetry.LogsConfig{Level: zapcore.FatalLevel, Encoding: "console", OutputPaths: []string{}, ErrorOutputPaths: []string{}},
			Metrics: telemetry.MetricsConfig{Level: configtelemetry.LevelNone},
		},
	}
}

func (w *World) serviceSettings(t *topo) service.Settings {
	ids := map[string]bool{}
	for _, p := range t.Pipes {
		for _, x := range p.Recv {
			ids[x] = true
		}
		for _, x := range p.Proc {
			ids[x] = true
		}
		for _, x := range p.Exp {
			ids[x] = true
		}
	}
	set := service.Settings{
		BuildInfo:           component.NewDefaultBuildInfo(),
		CollectorConf:       confmap.New(),
		ReceiversConfigs:    map[component.ID]component.Config{},
		ReceiversFactories:  w.receiverFactories(),
		ProcessorsConfigs:   map[component.ID]component.Config{},
		ProcessorsFactories: w.processorFactories(),
		ExportersConfigs:    map[component.ID]component.Config{},
		ExportersFactories:  w.exporterFactories(),
		ConnectorsConfigs:   map[component.ID]component.Config{},
		ConnectorsFactories: w.connectorFactories(),
		ExtensionsConfigs:   map[component.ID]component.Config{},
		ExtensionsFactories: w.extensionFactories(t.ExtDeps),
		AsyncErrorChannel:   make(chan error, 8),
	}
	for id := range ids {
		cid := mustID(id)
		switch typeOf(id) {
		case "rcv", "shr":
			set.ReceiversConfigs[cid] = &stubCfg{}
		case "proc", "ropr":
			set.ProcessorsConfigs[cid] = &stubCfg{}
		case "exp", "mexp":
			set.ExportersConfigs[cid] = &stubCfg{}
		default:
			set.ConnectorsConfigs[cid] = &stubCfg{}
		}
	}
	for _, e := range t.Exts {
		set.ExtensionsConfigs[mustID(e)] = &stubCfg{}
	}
	return set
}

// ---- C09 ----------------------------------------------------------------------------------------------------

func runC09(r *simkit.Run) { runRouting(r, "C09") }

// pipeMutates is the reference for a pipeline's advertised capability: one of its processors mutates, or its
// exporter stage hands the original payload to a mutating exporter (all of its exporters mutate).
func (t *topo) pipeMutates(p pipeCfg) bool {
	for _, x := range p.Proc {
		if typeOf(x) == "proc" {
			return true
		}
	}
	if len(p.Exp) == 0 {
		return false
	}
	// the exporter stage hands the original to a mutating consumer only if every consumer of the stage mutates
	for _, x := range p.Exp {
		if !isConn(x) {
			if typeOf(x) != "mexp" {
				return false
			}
			continue
		}
		// one consumer per (connector, target signal) in use. A connector between pipelines of the same signal may
		// pass the payload along, so it counts as mutating when a pipeline it feeds mutates; a converting one does not.
		for _, to := range allSignals {
			if !connSupports(typeOf(x), p.Sig, to) {
				continue
			}
			used, mut := false, false
			for _, q := range t.Pipes {
				if q.Sig == to && contains(q.Recv, x) {
					used = true
					if to == p.Sig && t.pipeMutates(q) {
						mut = true
					}
				}
			}
			if used && !mut {
				return false
			}
		}
	}
	return true
}

func runRouting(r *simkit.Run, prop string) {
	tp := r.Tape
	t := genTopo(tp, false)
	r.Sample = t
	r.Logf("topology %+v", t.Pipes)
	w := NewWorld(r)
	cfg := t.serviceConfig()
	if tp.Chance(1, 4) {
		// a dry run first (what `validate` does): the same configuration VALUE is handed to service.Validate, with the
		// factories of a world of its own, and then to service.New; both must read the same configuration
		r.Count("probe.validated_before_built")
		w0 := NewWorld(r)
		verr := service.Validate(context.Background(), w0.serviceSettings(&t), cfg)
		if t.Invalid != "" && verr == nil {
			r.Failf("build", "invalid-accepted/validate", "the configuration is invalid (%s) but service.Validate accepted it", t.Invalid)
		}
		if t.Invalid == "" && verr != nil {
			r.Failf("build", "valid-rejected/validate", "service.Validate rejected a valid configuration: %v", verr)
		}
	}
	srv, err := service.New(context.Background(), w.serviceSettings(&t), cfg)
	if t.Invalid != "" {
		r.Count("fault.invalid_topology")
		r.Nontrivial = true
		if err == nil {
			r.Failf("build", "invalid-accepted", "the configuration is invalid (%s) but the service was built", t.Invalid)
			_ = srv.Shutdown(context.Background())
			return
		}
		r.Logf("rejected as expected: %s", t.Invalid)
		for _, e := range w.Log() {
			if e.Kind == "start" {
				r.Failf("build", "started-on-invalid", "component %s was started although the build failed", e.Comp)
			}
		}
		return
	}
	if err != nil {
		r.Failf("build", "valid-rejected", "a valid configuration was rejected: %v", err)
		return
	}
	if err := srv.Start(context.Background()); err != nil {
		r.Failf("build", "start-failed", "start failed without any injected fault: %v", err)
		return
	}
	// instance counts
	want := map[string]int{}
	for _, p := range t.Pipes {
		for _, x := range p.Recv {
			if !isConn(x) {
				want["receiver:"+x+":"+p.Sig] = 1
			}
		}
		for _, x := range p.Exp {
			if !isConn(x) {
				want["exporter:"+x+":"+p.Sig] = 1
			} else {
				for _, q := range t.Pipes {
					if contains(q.Recv, x) && connSupports(typeOf(x), p.Sig, q.Sig) && typeOf(x) != "forward" {
						want[fmt.Sprintf("connector:%s:%s->%s", x, p.Sig, q.Sig)] = 1
					}
				}
			}
		}
		for _, x := range p.Proc {
			want["procord:"+x+":"+p.Sig]++
		}
	}
	w.mu.Lock()
	got := map[string]int{}
	for k, v := range w.creates {
		if strings.HasPrefix(k, "processor:") || strings.HasPrefix(k, "extension:") || strings.HasSuffix(k, ":*") {
			continue
		}
		got[k] = v
	}
	w.mu.Unlock()
	for k, n := range want {
		if got[k] != n {
			r.Failf("instances", kindOfKey(k), "component %s: %d instances created, the configuration implies %d", k, got[k], n)
		}
	}
	for k, n := range got {
		if want[k] == 0 {
			r.Failf("instances", kindOfKey(k)+"/unexpected", "component %s: %d instances created, the configuration implies none", k, n)
		}
	}
	// inject one payload at every receiver of every signal it serves and compare deliveries with the reference
	type inj struct{ recv, sig string }
	var injs []inj
	seen := map[inj]bool{}
	for _, p := range t.Pipes {
		for _, x := range p.Recv {
			if !isConn(x) && !seen[inj{x, p.Sig}] {
				seen[inj{x, p.Sig}] = true
				injs = append(injs, inj{x, p.Sig})
			}
		}
	}
	sort.Slice(injs, func(i, j int) bool { return injs[i].recv+injs[i].sig < injs[j].recv+injs[j].sig })
	n := 0
	if t.RtMode == 7 {
		// the routing connector's selection depends on the payload: four rounds of injections
		injs = append(append(append(append([]inj(nil), injs...), injs...), injs...), injs...)
		r.Count("probe.routing_selection_varies_per_payload")
	}
	for _, in := range injs {
		if r.Failed() {
			break
		}
		n++
		id := fmt.Sprintf("d%d", n)
		rc := w.Receiver(in.recv, in.sig)
		if rc == nil {
			r.Failf("instances", "receiver/missing", "no receiver instance %s for %s", in.recv, in.sig)
			continue
		}
		if prop == "C06" {
			// what the receiver is told about mutation: every pipeline it feeds on this signal mutates
			wantCap, np := true, 0
			for _, p := range t.Pipes {
				if p.Sig == in.sig && contains(p.Recv, in.recv) {
					np++
					wantCap = wantCap && t.pipeMutates(p)
				}
			}
			if got := rc.next.caps().MutatesData; got != wantCap {
				r.Failf("capability", fmt.Sprintf("pipelines-fed-%d", min(np, 2)), "receiver %s (%s) feeds %d pipelines; it is told MutatesData=%v, the configuration implies %v", in.recv, in.sig, np, got, wantCap)
			}
		}
		before := len(w.Deliveries())
		var cerr error
		r.Fire(fmt.Sprintf("inject:%s:%s", in.recv, in.sig), func() {
			cerr = rc.next.consume(context.Background(), newPayload(in.sig, []item{{ID: id}}))
		})
		if cerr != nil {
			r.Failf("routing", "consume-error", "injection at %s/%s failed: %v", in.recv, in.sig, cerr)
		}
		var gotD []string
		for _, d := range w.Deliveries()[before:] {
			if d.ID != id {
				r.Failf("routing", "foreign-item", "exporter %s received item %s while %s was injected", d.Comp, d.ID, id)
			}
			gotD = append(gotD, d.Comp+" via "+d.Trail)
		}
		var wantD []string
		for _, d := range t.routes(in.recv, in.sig, id) {
			wantD = append(wantD, d.Comp+" via "+d.Trail)
		}
		sort.Strings(gotD)
		sort.Strings(wantD)
		if strings.Join(gotD, " | ") != strings.Join(wantD, " | ") {
			r.Failf("routing", "deliveries", "payload injected at %s (%s): delivered [%s], the configuration implies [%s]", in.recv, in.sig, strings.Join(gotD, " | "), strings.Join(wantD, " | "))
		}
		if len(wantD) > 1 {
			r.Nontrivial = true
		}
		r.CountN("probe.deliveries_checked/"+in.sig, int64(len(wantD)))
	}
	if err := srv.Shutdown(context.Background()); err != nil {
		r.Failf("build", "shutdown-failed", "shutdown failed without any injected fault: %v", err)
	}
	r.State(fmt.Sprintf("pipes=%d conns=%v", len(t.Pipes), hasConn(&t)), "end")
}

func hasConn(t *topo) bool {
	for _, p := range t.Pipes {
		for _, e := range p.Exp {
			if isConn(e) {
				return true
			}
		}
	}
	return false
}

func kindOfKey(k string) string {
	if i := strings.IndexByte(k, ':'); i > 0 {
		return k[:i]
	}
	return k
}

var svcReal = []string{"service.New / Start / Shutdown", "service/internal/graph (node creation, edges, topological order, capabilities and fan-out nodes)", "service/internal/builders", "service/extensions (dependency order)", "internal/fanoutconsumer", "internal/sharedcomponent", "service/internal/status reporter", "service telemetry (logs off, metrics level none)"}
var svcStub = []string{"leaf components: instrumented stub receivers, processors (mutating / read-only), exporters, connectors (forwarding, all-pairs converting, logs->metrics only, an asymmetric several-pairs matrix, a matrix drawn cell by cell per run, a routing connector that selects destinations through the router API in one of seven ways) and extensions, created through real factories"}

var HarnessC09 = simkit.Harness{
	Prop: "C09", Name: "svc/c09", Run: runC09, StepTimeout: 20e9, Real: svcReal, Stub: svcStub, HashInsensitive: true,
	Rule: "one run = one generated service configuration (1-5 pipelines over 4 signals incl. profiles, shared and signal-sharing receivers, 0-3 processors, 1-2 exporters, up to 3 connector wirings of connector types incl. the real forward connector and a routing connector that selects destinations through the router API (ten selection modes, one of them a different selection for every payload), incl. unsupported pairs, dangling usage and cycles; 1 run in 10 is a router-focused topology: one source pipeline, a routing connector, 2-5 pipelines of the same signal whose names may contain '/' ('a', 'b' and 'a/b' are three pipelines), four rounds of payloads) built and started by the real service; one tagged payload is injected at every (receiver, signal) and the deliveries (exporter, processor/connector trail) are compared with an independent reachability walk of the configuration; invalid configurations must be rejected with nothing started; distinct = distinct event-log hash; non-trivial = a payload with >1 expected delivery or an invalid topology. Limit: the schedule/fault dimension adds little to this property; the deciding content is the seeded topology search through the real build and runtime",
}

// ---- C10 ----------------------------------------------------------------------------------------------------

type lifeResult struct {
	log      []Ev
	startErr error
	shutErr  error
	world    *World
	buildErr error
	// gen > 0: only the components and events of that generation belong to this lifetime (second lifetime in a world)
	gen int
}

func runLifetime(r *simkit.Run, t *topo, failKey, failWhat string) *lifeResult {
	if failKey == "" {
		return runLifetimeSet(r, t, nil)
	}
	return runLifetimeSet(r, t, map[string]string{failKey: failWhat})
}

// runLifetimeSet: fails maps component keys to "start", "shutdown" or "both".
func runLifetimeSet(r *simkit.Run, t *topo, fails map[string]string) *lifeResult {
	w := NewWorld(r)
	for k, what := range fails {
		p := w.plan(k)
		if what == "start" || what == "both" {
			p.FailStart = true
		}
		if what == "shutdown" || what == "both" {
			p.FailShutdown = true
		}
		p.FailNotifyConfig = what == "notify-config"
		p.FailReady = what == "ready"
		p.FailNotReady = what == "not-ready"
	}
	res := &lifeResult{world: w}
	srv, err := service.New(context.Background(), w.serviceSettings(t), t.serviceConfig())
	if err != nil {
		res.buildErr = err
		return res
	}
	res.startErr = srv.Start(context.Background())
	res.shutErr = srv.Shutdown(shutdownCtx(t))
	res.log = w.Log()
	return res
}

// shutdownCtx: the context handed to service.Shutdown (already cancelled when the topology says so).
func shutdownCtx(t *topo) context.Context {
	if !t.ShutCtxDone {
		return context.Background()
	}
	ctx, cancel := context.WithCancel(context.Background())
	cancel()
	return ctx
}

// consumersOf returns, for a started component key, the keys of the components it sends data to (from the config).
func (t *topo) consumersOf(key string) []string {
	var out []string
	chainHead := func(p pipeCfg) []string {
		// the first component of pipeline p that receives data: first processor, else its exporters/connectors
		if len(p.Proc) > 0 {
			return []string{"processor:" + p.Proc[0] + "@" + p.Name}
		}
		return t.pipeSinks(p)
	}
	switch {
	case strings.HasPrefix(key, "receiver:"):
		parts := strings.Split(key, ":")
		id, sig := parts[1], parts[2]
		for _, p := range t.Pipes {
			if contains(p.Recv, id) && (sig == "*" || p.Sig == sig) {
				out = append(out, chainHead(p)...)
			}
		}
	case strings.HasPrefix(key, "processor:"):
		rest := strings.TrimPrefix(key, "processor:")
		at := strings.LastIndex(rest, "@")
		if at < 0 {
			return nil // creation-time key of a processor that was never started
		}
		id, pname := rest[:at], rest[at+1:]
		for _, p := range t.Pipes {
			if p.Name != pname {
				continue
			}
			for i, x := range p.Proc {
				if x == id {
					if i+1 < len(p.Proc) {
						out = append(out, "processor:"+p.Proc[i+1]+"@"+p.Name)
					} else {
						out = append(out, t.pipeSinks(p)...)
					}
				}
			}
		}
	case strings.HasPrefix(key, "connector:"):
		parts := strings.Split(key, ":")
		id := parts[1]
		pair := strings.Split(parts[2], "->")
		for _, p := range t.Pipes {
			if p.Sig == pair[1] && contains(p.Recv, id) {
				out = append(out, chainHead(p)...)
			}
		}
	}
	return out
}

func (t *topo) pipeSinks(p pipeCfg) []string {
	var out []string
	for _, e := range p.Exp {
		if !isConn(e) {
			out = append(out, "exporter:"+e+":"+p.Sig)
			continue
		}
		for _, to := range allSignals {
			if !connSupports(typeOf(e), p.Sig, to) {
				continue
			}
			used := false
			for _, q := range t.Pipes {
				if q.Sig == to && contains(q.Recv, e) {
					used = true
				}
			}
			if used {
				out = append(out, fmt.Sprintf("connector:%s:%s->%s", e, p.Sig, to))
			}
		}
	}
	return out
}

func pipelineNameOf(id pipeline.ID) string { return id.String() }

func checkLifetime(r *simkit.Run, t *topo, res *lifeResult, failKey, failWhat string) {
	if failKey == "" {
		checkLifetimeSet(r, t, res, nil)
		return
	}
	checkLifetimeSet(r, t, res, map[string]string{failKey: failWhat})
}

func checkLifetimeSet(r *simkit.Run, t *topo, res *lifeResult, fails map[string]string) {
	tag := "fault-free"
	failKey, failWhat := "", ""
	if len(fails) == 1 {
		for k, w := range fails {
			failKey, failWhat = k, w
		}
		tag = failWhat + "-failure"
	} else if len(fails) > 1 {
		tag = "several-failures"
	}
	pos := map[string]map[string]int{} // key -> kind -> seq (first)
	cnt := map[string]map[string]int{}
	for _, e := range res.log {
		k := e.Comp
		if pos[k] == nil {
			pos[k] = map[string]int{}
			cnt[k] = map[string]int{}
		}
		if _, ok := pos[k][e.Kind]; !ok {
			pos[k][e.Kind] = e.Seq
		}
		cnt[k][e.Kind]++
	}
	// result of Start / Shutdown: what actually failed (a component planned to fail in Start may never be reached when
	// an earlier one failed first)
	var startFailed, shutFailed []string
	hookStart, hookStop := false, false // a watcher hook failed during start-up / during shutdown
	for _, e := range res.log {
		if e.Kind == "hook-fail" {
			if e.Info == "not-ready" {
				hookStop = true
			} else {
				hookStart = true
			}
		}
	}
	for _, k := range sortedKeysOf(pos) {
		if _, ok := pos[k]["start-fail"]; ok {
			startFailed = append(startFailed, k)
		}
		if _, ok := pos[k]["shutdown-fail"]; ok {
			shutFailed = append(shutFailed, k)
		}
	}
	if len(startFailed) > 0 {
		if res.startErr == nil || !errors.Is(res.startErr, errStubStart) {
			r.Failf("start-error", tag, "Start of %v failed but service.Start returned %v", startFailed, res.startErr)
		}
		if len(startFailed) > 1 {
			r.Failf("order", "start-after-failed-start", "the Start of %d components failed (%v): start-up was not aborted by the first failure", len(startFailed), startFailed)
		}
	} else if res.startErr != nil && !hookStart {
		r.Failf("start-error", tag+"/spurious", "service.Start returned %v although no Start failed", res.startErr)
	}
	if len(shutFailed) > 0 {
		if res.shutErr == nil || !errors.Is(res.shutErr, errStubShutdown) {
			r.Failf("shutdown-error", tag, "Shutdown of %v failed but service.Shutdown returned %v", shutFailed, res.shutErr)
		} else {
			for _, k := range shutFailed {
				if !strings.Contains(res.shutErr.Error(), k+":") {
					r.Failf("shutdown-error", "failure-not-reported/"+kindOfKey(k), "Shutdown of %s failed (one of %d failures) but the error returned by service.Shutdown does not report it: %v", k, len(shutFailed), res.shutErr)
				}
			}
		}
	} else if res.shutErr != nil && !hookStop {
		r.Failf("shutdown-error", tag+"/spurious", "service.Shutdown returned %v although no Shutdown failed", res.shutErr)
	}
	for k, what := range fails {
		if (what == "shutdown" || what == "both") && cnt[k]["shutdown"] > 0 && cnt[k]["shutdown-fail"] == 0 {
			r.Failf("harness", "planned-shutdown-failure-missing", "planned shutdown failure of %s did not happen", k)
		}
	}
	if failWhat == "both" {
		failWhat = "start"
	}
	// exactly once: every created instance (by object) is started at most once and shut down exactly once
	res.world.mu.Lock()
	comps := make([]*stubBase, 0, len(res.world.comps))
	for _, b := range res.world.comps {
		if res.gen == 0 || b.gen == res.gen {
			comps = append(comps, b)
		}
	}
	res.world.mu.Unlock()
	sort.Slice(comps, func(i, j int) bool { return comps[i].key < comps[j].key })
	for _, b := range comps {
		if b.nStart > 1 {
			r.Failf("once", "started-twice/"+kindOfKey(b.key), "%s was started %d times (%s)", b.k(), b.nStart, tag)
		}
		if b.nShutdown != 1 {
			r.Failf("once", fmt.Sprintf("shutdown-%d-times/%s/%s", b.nShutdown, kindOfKey(b.key), tag), "%s was shut down %d times in one service lifetime (%s; started %d times)", b.k(), b.nShutdown, tag, b.nStart)
		}
	}
	// after a start failure nothing else is started
	if failWhat == "start" {
		if _, ok := pos[failKey]["start-fail"]; !ok {
			// the component was never reached? then the plan key does not exist in this topology
			r.Failf("harness", "fail-key-not-reached", "planned start failure of %s never happened", failKey)
		}
	}
	if len(startFailed) > 0 {
		fseq := pos[startFailed[0]]["start-fail"]
		for _, k := range sortedKeysOf(pos) {
			if s, ok := pos[k]["start"]; ok && s > fseq {
				r.Failf("order", "start-after-failed-start", "%s was started after the start of %s had failed", k, startFailed[0])
			}
		}
	}
	// ordering
	var lastExtStart, firstPipeStart, lastPipeShutdown, firstExtShutdown = -1, 1 << 30, -1, 1 << 30
	for k, m := range pos {
		isExt := strings.HasPrefix(k, "extension:")
		if s, ok := m["start"]; ok {
			if isExt && s > lastExtStart {
				lastExtStart = s
			}
			if !isExt && s < firstPipeStart {
				firstPipeStart = s
			}
		}
		if s, ok := m["shutdown"]; ok {
			if isExt && s < firstExtShutdown {
				firstExtShutdown = s
			}
			if !isExt && s > lastPipeShutdown {
				lastPipeShutdown = s
			}
		}
	}
	if lastExtStart > firstPipeStart {
		r.Failf("order", "extension-started-after-pipeline-component", "an extension was started (event %d) after a pipeline component (event %d) (%s)", lastExtStart, firstPipeStart, tag)
	}
	if firstExtShutdown < lastPipeShutdown {
		r.Failf("order", "extension-stopped-before-pipeline-component", "an extension was shut down (event %d) before a pipeline component (event %d) (%s)", firstExtShutdown, lastPipeShutdown, tag)
	}
	for ext, deps := range t.ExtDeps {
		for _, d := range deps {
			es, ok1 := pos["extension:"+ext]["start"]
			ds, ok2 := pos["extension:"+d]["started"]
			if ok1 && (!ok2 || ds > es) {
				r.Failf("order", "extension-before-dependency", "extension %s was started before its dependency %s had started (%s)", ext, d, tag)
			}
			esd, ok3 := pos["extension:"+ext]["shutdown"]
			dsd, ok4 := pos["extension:"+d]["shutdown"]
			if ok3 && ok4 && dsd < esd {
				r.Failf("order", "dependency-stopped-first", "extension %s was shut down before %s which depends on it (%s)", d, ext, tag)
			}
		}
	}
	for k, m := range pos {
		if strings.HasPrefix(k, "extension:") {
			continue
		}
		for _, c := range t.consumersOf(k) {
			ck := c
			if strings.HasPrefix(c, "receiver:") || strings.HasPrefix(c, "connector:forward/") {
				continue // (the real forward connector is not instrumented)
			}
			// shared receivers have key receiver:<id>:*
			cs, cok := pos[ck]["started"]
			if s, ok := m["start"]; ok {
				if !cok || cs > s {
					locus := "started-before-consumer"
					if strings.HasSuffix(k, ":*") {
						locus += "/receiver-shared-across-signals"
					}
					r.Failf("order", locus, "%s was started before %s, which it sends data to, had started (%s)", k, ck, tag)
				}
			}
			// shutdown: k (upstream) before c (downstream)
			if s, ok := m["shutdown"]; ok {
				if d, ok2 := pos[ck]["shutdown"]; ok2 && d < s {
					r.Failf("order", "consumer-stopped-first", "%s was shut down before %s, which sends data to it (%s)", ck, k, tag)
				}
			}
		}
	}
}

func runC10(r *simkit.Run) {
	tp := r.Tape
	var t topo
	for i := 0; i < 6; i++ {
		t = genTopo(tp, false)
		if t.Invalid == "" {
			break
		}
	}
	r.Sample = t
	if t.Invalid != "" {
		r.Logf("no valid topology drawn")
		return
	}
	if tp.Chance(1, 3) {
		// an extension that watches the configuration and the pipelines' readiness: its hooks are one more place where
		// start-up (NotifyConfig, Ready) and shutdown (NotReady) can fail
		t.Exts = append([]string{"watch/1"}, t.Exts...)
		r.Sample = t
	}
	t.ShutCtxDone = tp.Chance(1, 4)
	r.Sample = t
	mode := tp.Weighted(1, 3, 2, 1) // 0: one failure position from the tape (replay target); 1: enumerate all positions; 2: a set of failures
	base := runLifetime(r, &t, "", "")
	if base.buildErr != nil {
		r.Failf("build", "valid-rejected", "a valid configuration was rejected: %v", base.buildErr)
		return
	}
	checkLifetime(r, &t, base, "", "")
	r.AddCase(fmt.Sprintf("%v|fault-free", t), false)
	if r.Failed() {
		logLifetime(r, base)
		return
	}
	// failure positions = every started component x {start, shutdown}
	keySet := map[string]bool{}
	for _, e := range base.log {
		if e.Kind == "start" {
			keySet[e.Comp] = true
		}
	}
	keys := make([]string, 0, len(keySet))
	for k := range keySet {
		keys = append(keys, k)
	}
	sort.Strings(keys)
	type posn struct{ key, what string }
	var all []posn
	for _, k := range keys {
		all = append(all, posn{k, "start"}, posn{k, "shutdown"})
		if k == "extension:watch/1" {
			all = append(all, posn{k, "notify-config"}, posn{k, "ready"}, posn{k, "not-ready"})
		}
	}
	if len(all) == 0 {
		return
	}
	run := func(p posn) bool {
		res := runLifetime(r, &t, p.key, p.what)
		r.Count("fault.component_" + p.what + "_failure")
		r.Nontrivial = true
		r.Events++
		checkLifetime(r, &t, res, p.key, p.what)
		r.AddCase(fmt.Sprintf("%v|%s|%s", t, p.key, p.what), true)
		if r.Failed() {
			r.Logf("failure position: %s of %s", p.what, p.key)
			logLifetime(r, res)
			return false
		}
		return true
	}
	if mode == 0 {
		run(all[tp.Draw(len(all))])
		return
	}
	if mode == 3 {
		// Two service lifetimes in ONE world: the factories of the second service share what factories keep between
		// services (the map of components shared across signals). The first lifetime has a tape-drawn set of failures,
		// the second none: its own components must be created, started once and shut down once like in any lifetime.
		fails := map[string]string{}
		n := tp.Range(0, 3)
		for i := 0; i < n; i++ {
			fails[keys[tp.Draw(len(keys))]] = []string{"shutdown", "shutdown", "start"}[tp.Draw(3)]
		}
		w := NewWorld(r)
		for k, what := range fails {
			pl := w.plan(k)
			pl.FailStart = what == "start"
			pl.FailShutdown = what == "shutdown"
		}
		srv1, err := service.New(context.Background(), w.serviceSettings(&t), t.serviceConfig())
		if err != nil {
			r.Failf("build", "valid-rejected", "a valid configuration was rejected: %v", err)
			return
		}
		_ = srv1.Start(context.Background())
		_ = srv1.Shutdown(context.Background())
		// second lifetime, fault-free
		for k := range fails {
			pl := w.plan(k)
			pl.FailStart, pl.FailShutdown = false, false
		}
		w.mu.Lock()
		w.Gen = 2
		first := len(w.log)
		w.mu.Unlock()
		res := &lifeResult{world: w, gen: 2}
		srv2, err := service.New(context.Background(), w.serviceSettings(&t), t.serviceConfig())
		if err != nil {
			r.Failf("build", "second-lifetime-rejected", "the same valid configuration was rejected when a second service was built from the same factories: %v", err)
			return
		}
		res.startErr = srv2.Start(context.Background())
		res.shutErr = srv2.Shutdown(shutdownCtx(&t))
		for _, e := range w.Log()[first:] {
			e.Seq -= first
			res.log = append(res.log, e)
		}
		r.Count("fault.second_lifetime_from_the_same_factories")
		r.Nontrivial = true
		r.Events += 2
		checkLifetimeSet(r, &t, res, nil)
		// every component of the fault-free reference lifetime exists again in the second lifetime
		started2 := map[string]bool{}
		for _, e := range res.log {
			if e.Kind == "start" {
				started2[e.Comp] = true
			}
		}
		for _, k := range keys {
			if !started2[k] {
				r.Failf("once", "second-lifetime/not-started/"+kindOfKey(k), "%s is started in a first service lifetime but was never started in the second lifetime built from the same factories (failures in the first lifetime: %v)", k, fails)
			}
		}
		r.AddCase(fmt.Sprintf("%v|two-lifetimes|%v", t, fails), true)
		if r.Failed() {
			r.Logf("first-lifetime failures: %v", fails)
			logLifetime(r, res)
		}
		return
	}
	if mode == 2 {
		// several failures in one lifetime: at most one planned Start failure (the first one reached aborts start-up) and
		// any number of Shutdown failures, drawn from the tape
		fails := map[string]string{}
		if tp.Chance(1, 2) {
			fails[keys[tp.Draw(len(keys))]] = "start"
		}
		n := tp.Range(1, 4)
		for i := 0; i < n; i++ {
			k := keys[tp.Draw(len(keys))]
			if fails[k] == "start" {
				fails[k] = "both"
			} else if fails[k] == "" {
				fails[k] = "shutdown"
			}
		}
		res := runLifetimeSet(r, &t, fails)
		r.Count("fault.several_component_failures")
		r.Nontrivial = true
		r.Events++
		checkLifetimeSet(r, &t, res, fails)
		r.AddCase(fmt.Sprintf("%v|%v", t, fails), true)
		if r.Failed() {
			r.Logf("failure set: %v", fails)
			logLifetime(r, res)
		}
		return
	}
	scriptVals := append([]int(nil), tp.Vals...)
	for i, p := range all {
		if !run(p) {
			// point the replay at this one position
			ot := append([]int(nil), scriptVals...)
			ot[len(ot)-1] = 0 // mode 0
			r.OverrideTape = append(ot, i)
			return
		}
	}
	r.Logf("enumerated %d failure positions of %d components", len(all), len(keys))
}

func logLifetime(r *simkit.Run, res *lifeResult) {
	for _, e := range res.log {
		if e.Kind != "create" {
			r.Logf("  %s", e.String())
		}
	}
}

var HarnessC10 = simkit.Harness{
	Prop: "C10", Name: "svc/c10", Run: runC10, StepTimeout: 20e9, Real: svcReal, Stub: svcStub, HashInsensitive: true,
	Rule: "one run = one generated valid service configuration (as C09, plus 0-3 extensions with dependency declarations); the service is built, started and shut down fault-free, then once for EVERY single failure position (each started component x {Start fails, Shutdown fails}), or (1 run in 3) once with a tape-drawn SET of failures (at most one Start failure plus 1-4 Shutdown failures, every failed Shutdown must appear in the aggregated error), or (1 run in 7) two lifetimes in one world - the second, fault-free service is built from factories that share their component maps with the first, which had failures; the global event log of instrumented components is checked against the partial order implied by the configuration (extensions first/last and after their dependencies, consumers before producers, reverse on shutdown), exactly-once start/shutdown per created instance (shared receivers once), error propagation and clean-up; evaluations = service lifetimes; distinct = distinct (topology, failure position); non-trivial = a failure was injected",
}

func sortedKeysOf[V any](m map[string]V) []string {
	out := make([]string, 0, len(m))
	for k := range m {
		out = append(out, k)
	}
	sort.Strings(out)
	return out
}
