package verifsim

import (
	"bytes"
	"context"
	"fmt"
	"time"

	"go.opentelemetry.io/collector/component"
	"go.opentelemetry.io/collector/component/componenttest"
	"go.opentelemetry.io/collector/consumer"
	"go.opentelemetry.io/collector/exporter"
	"go.opentelemetry.io/collector/exporter/exporterhelper"
	"go.opentelemetry.io/collector/pdata/plog"
	"go.opentelemetry.io/collector/pdata/pmetric"
	"go.opentelemetry.io/collector/pdata/ptrace"
	"verif.local/simkit"
	"verif.local/simkit/gen"
)

// C06, exporter stage: "a pipeline advertises itself as mutating exactly when ... its exporter stage acting on the
// original payload may mutate it". A real exporter built with the exporter helper (queue in memory, batching none /
// sending_queue::batch / legacy WithBatcher with drawn min and max sizes; Shutdown drains it) is handed a mutable payload directly. If it declares MutatesData=false the payload object must
// be byte-for-byte what it was when the call returns and after everything has settled - that is what lets the fan-out
// share it with a sibling; whatever it declares, the pushes together carry every item exactly once.

type c06HelperCfg struct {
	Signal string `json:"signal"`
	Batch  string `json:"batch"` // none | queue | legacy
	Sizer  string `json:"sizer"`
	Min    int64  `json:"min_size"`
	Max    int64  `json:"max_size"`
	Items  int    `json:"items"`
}

func runC06Helper(r *simkit.Run) {
	tp := r.Tape
	cfg := c06HelperCfg{Signal: []string{sigLogs, sigTraces, sigMetrics}[tp.Draw(3)], Batch: []string{"none", "queue", "legacy"}[tp.Weighted(1, 3, 2)]}
	cfg.Sizer = "items"
	if cfg.Batch != "none" {
		cfg.Max = int64(tp.Draw(6))
		hi := cfg.Max
		if hi == 0 {
			hi = 6
		}
		cfg.Min = int64(tp.Draw(int(hi) + 1))
	}
	p := pd{sig: cfg.Signal}
	ids := &gen.IDs{Prefix: "i"}
	payload := p.gen(tp, ids)
	if tp.Chance(1, 3) {
		gen.Enrich(tp, payload, false)
	}
	cfg.Items = p.itemCount(payload)
	r.Sample = map[string]any{"mode": "exporter-stage", "config": cfg}
	r.Logf("exporter stage: %+v", cfg)
	before := p.bytes(payload)
	var want map[string]string
	switch cfg.Signal {
	case sigLogs:
		want = gen.LogItems(payload.(plog.Logs))
	case sigTraces:
		want = gen.SpanItems(payload.(ptrace.Traces))
	default:
		want = gen.PointItems(payload.(pmetric.Metrics))
	}
	got := map[string]int{}
	record := func(items map[string]string) {
		for id := range items {
			got[id]++
		}
	}
	qc := exporterhelper.NewDefaultQueueConfig()
	// (no wait_for_result: its pooled result channels would travel from one bubble to the next; Shutdown drains instead)
	qc.NumConsumers = 1
	qc.Sizer = exporterhelper.RequestSizerTypeItems
	qc.QueueSize = 1000
	if cfg.Batch == "queue" {
		qc.Batch = &exporterhelper.BatchConfig{FlushTimeout: time.Second, MinSize: cfg.Min, MaxSize: cfg.Max}
	}
	if err := qc.Validate(); err != nil {
		panic("harness: invalid queue config: " + err.Error())
	}
	opts := []exporterhelper.Option{exporterhelper.WithQueue(qc)}
	if cfg.Batch == "legacy" {
		bc := exporterhelper.NewDefaultBatcherConfig()
		bc.FlushTimeout = time.Second
		bc.MinSize, bc.MaxSize = cfg.Min, cfg.Max
		if err := bc.Validate(); err != nil {
			panic("harness: invalid batcher config: " + err.Error())
		}
		opts = append(opts, exporterhelper.WithBatcher(bc))
	}
	set := exporter.Settings{ID: component.MustNewID("helperexp"), TelemetrySettings: componenttest.NewNopTelemetrySettings(), BuildInfo: component.NewDefaultBuildInfo()}
	var comp component.Component
	var caps consumer.Capabilities
	var consume func(context.Context) error
	var err error
	switch cfg.Signal {
	case sigLogs:
		var e exporter.Logs
		e, err = exporterhelper.NewLogs(context.Background(), set, struct{}{}, func(_ context.Context, ld plog.Logs) error { record(gen.LogItems(ld)); return nil }, opts...)
		if err == nil {
			comp, caps, consume = e, e.Capabilities(), func(ctx context.Context) error { return e.ConsumeLogs(ctx, payload.(plog.Logs)) }
		}
	case sigTraces:
		var e exporter.Traces
		e, err = exporterhelper.NewTraces(context.Background(), set, struct{}{}, func(_ context.Context, td ptrace.Traces) error { record(gen.SpanItems(td)); return nil }, opts...)
		if err == nil {
			comp, caps, consume = e, e.Capabilities(), func(ctx context.Context) error { return e.ConsumeTraces(ctx, payload.(ptrace.Traces)) }
		}
	default:
		var e exporter.Metrics
		e, err = exporterhelper.NewMetrics(context.Background(), set, struct{}{}, func(_ context.Context, md pmetric.Metrics) error { record(gen.PointItems(md)); return nil }, opts...)
		if err == nil {
			comp, caps, consume = e, e.Capabilities(), func(ctx context.Context) error { return e.ConsumeMetrics(ctx, payload.(pmetric.Metrics)) }
		}
	}
	if err != nil {
		panic(err)
	}
	if err := comp.Start(context.Background(), componenttest.NewNopHost()); err != nil {
		panic(err)
	}
	r.Settle()
	task := simkit.Go("caller", func(t *simkit.Task) { t.Err = consume(context.Background()) })
	r.Fire("consume", func() {})
	for i := 0; i < 5 && !task.Done(); i++ {
		r.Fire("advance:flush", func() { time.Sleep(time.Second) }) // a partial batch leaves by its flush timeout
	}
	sd := simkit.Go("shutdown", func(t *simkit.Task) { t.Err = comp.Shutdown(context.Background()) })
	r.Fire("shutdown", func() {})
	r.Nontrivial = cfg.Batch != "none"
	if !task.Done() || !sd.Done() {
		r.Failf("liveness", "exporter-stage", "the helper exporter's Consume (done=%v) or Shutdown (done=%v) did not return", task.Done(), sd.Done())
		return
	}
	if task.Err != nil {
		r.Failf("harness", "exporter-stage/consume-error", "Consume returned %v although the push function accepts everything", task.Err)
		return
	}
	for id := range want {
		if got[id] != 1 {
			r.Failf("conservation", "exporter-stage/item-count", "item %s was pushed %d times by the exporter stage (%s batching, min %d, max %d)", id, got[id], cfg.Batch, cfg.Min, cfg.Max)
			break
		}
	}
	after := p.bytes(payload)
	r.Logf("declares MutatesData=%v; payload unchanged=%v", caps.MutatesData, bytes.Equal(before, after))
	if caps.MutatesData {
		r.Count("probe.exporter_stage_declares_mutation")
	}
	if !caps.MutatesData && !bytes.Equal(before, after) {
		r.Failf("isolation", "exporter-stage-mutates-undeclared/"+cfg.Batch, "an exporter built with the helper (%s batching, min_size %d, max_size %d) declares MutatesData=false but changed the payload it was handed: %d items (%d bytes) before, %d items (%d bytes) after - a fan-out would have shared that object with its siblings",
			cfg.Batch, cfg.Min, cfg.Max, cfg.Items, len(before), p.itemCount(payload), len(after))
	}
	_ = fmt.Sprint
}
