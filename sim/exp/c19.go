package verifsim

import (
	"context"
	"errors"
	"fmt"
	"time"

	"go.opentelemetry.io/otel/sdk/metric/metricdata"

	"go.opentelemetry.io/collector/component"
	"go.opentelemetry.io/collector/component/componenttest"
	"go.opentelemetry.io/collector/consumer"
	"go.opentelemetry.io/collector/pdata/plog"
	"go.opentelemetry.io/collector/pdata/pmetric"
	"go.opentelemetry.io/collector/pdata/ptrace"
	"go.opentelemetry.io/collector/processor"
	"go.opentelemetry.io/collector/processor/processorhelper"
	"go.opentelemetry.io/collector/receiver"
	"go.opentelemetry.io/collector/receiver/receiverhelper"
	"go.opentelemetry.io/collector/scraper"
	"go.opentelemetry.io/collector/scraper/scrapererror"
	"go.opentelemetry.io/collector/scraper/scraperhelper"
	"verif.local/simkit"
	"verif.local/simkit/gen"
)

func sumCounter(tel *componenttest.Telemetry, name string) int64 {
	m, err := tel.GetMetric(name)
	if err != nil {
		return 0
	}
	if d, ok := m.Data.(metricdata.Sum[int64]); ok {
		var t int64
		for _, dp := range d.DataPoints {
			t += dp.Value
		}
		return t
	}
	return 0
}

var sigNames = []string{"logs", "traces", "metrics"}
var sigItem = map[string]string{"logs": "log_records", "traces": "spans", "metrics": "metric_points"}

// ---- receiver helper: concurrent receive operations of three signals, ended in a schedule-chosen order ---------

func runC19Receiver(r *simkit.Run) {
	tp := r.Tape
	tel := componenttest.NewTelemetry()
	defer tel.Shutdown(context.Background()) //nolint:errcheck
	set := receiver.Settings{ID: component.MustNewID("simrecv"), TelemetrySettings: tel.NewTelemetrySettings(), BuildInfo: component.NewDefaultBuildInfo()}
	long := tp.Chance(1, 2)
	obs, err := receiverhelper.NewObsReport(receiverhelper.ObsReportSettings{ReceiverID: set.ID, Transport: "sim", LongLivedCtx: long, ReceiverCreateSettings: set})
	if err != nil {
		panic(err)
	}
	r.Sample = map[string]any{"sub": "receiver", "long_lived_ctx": long}
	type op struct {
		sig string
		n   int
		ctx context.Context
	}
	accepted, refused := map[string]int64{}, map[string]int64{}
	var open []*op
	steps := tp.Range(4, 30)
	for i := 0; i < steps; i++ {
		if len(open) < 4 && (len(open) == 0 || tp.Chance(1, 2)) {
			o := &op{sig: sigNames[tp.Draw(3)], n: tp.Draw(6)}
			r.Fire(fmt.Sprintf("start:%s:%d", o.sig, o.n), func() {
				switch o.sig {
				case "logs":
					o.ctx = obs.StartLogsOp(context.Background())
				case "traces":
					o.ctx = obs.StartTracesOp(context.Background())
				default:
					o.ctx = obs.StartMetricsOp(context.Background())
				}
			})
			open = append(open, o)
			if len(open) > 1 {
				r.Nontrivial = true
			}
			continue
		}
		k := tp.Draw(len(open))
		o := open[k]
		open = append(open[:k], open[k+1:]...)
		var derr error
		switch tp.Weighted(3, 1, 1) {
		case 1:
			derr = errTransient
			r.Count("fault.downstream_transient")
		case 2:
			derr = errPermanent
			r.Count("fault.downstream_permanent")
		}
		r.Fire(fmt.Sprintf("end:%s:%d:%s", o.sig, o.n, simkit.ShortErr(derr)), func() {
			switch o.sig {
			case "logs":
				obs.EndLogsOp(o.ctx, "fmt", o.n, derr)
			case "traces":
				obs.EndTracesOp(o.ctx, "fmt", o.n, derr)
			default:
				obs.EndMetricsOp(o.ctx, "fmt", o.n, derr)
			}
		})
		if derr == nil {
			accepted[o.sig] += int64(o.n)
		} else {
			refused[o.sig] += int64(o.n)
		}
		for _, sg := range sigNames {
			a := sumCounter(tel, "otelcol_receiver_accepted_"+sigItem[sg])
			f := sumCounter(tel, "otelcol_receiver_refused_"+sigItem[sg])
			if a != accepted[sg] || f != refused[sg] {
				r.Failf("balance", "receiver/"+sg, "receiver counters for %s: accepted=%d refused=%d, ledger accepted=%d refused=%d", sg, a, f, accepted[sg], refused[sg])
			}
		}
		if r.Failed() {
			return
		}
	}
}

// ---- processor helper: processors that drop / add / skip / fail, downstream that accepts or fails --------------

func runC19Processor(r *simkit.Run) {
	tp := r.Tape
	tel := componenttest.NewTelemetry()
	defer tel.Shutdown(context.Background()) //nolint:errcheck
	sig := sigNames[tp.Draw(3)]
	ad := adapterByName(sig)
	set := processor.Settings{ID: component.MustNewID("simproc"), TelemetrySettings: tel.NewTelemetrySettings(), BuildInfo: component.NewDefaultBuildInfo()}
	// declared capabilities: the helper's default, explicitly mutating, or non-mutating; a non-mutating processor that
	// changes the data does so on a copy (copy-on-write) and returns the copy; a mutating one may do either
	capsKind := tp.Draw(3)
	cow := capsKind == 1 || tp.Chance(1, 3)
	var opts []processorhelper.Option
	switch capsKind {
	case 1:
		opts = append(opts, processorhelper.WithCapabilities(consumer.Capabilities{MutatesData: false}))
	case 2:
		opts = append(opts, processorhelper.WithCapabilities(consumer.Capabilities{MutatesData: true}))
	}
	r.Sample = map[string]any{"sub": "processor", "signal": sig, "capabilities": []string{"default", "MutatesData=false", "MutatesData=true"}[capsKind], "copy_on_write": cow}
	ids := &gen.IDs{Prefix: "i"}
	var given, forwarded, sinkGot int64
	var action int // decided per call by the scheduler before the call
	var sinkErr error
	var curOut int
	// the process function applies the tape-chosen action
	var consume func(ctx context.Context, p any) error
	switch sig {
	case "logs":
		sink, _ := consumer.NewLogs(func(_ context.Context, ld plog.Logs) error { sinkGot += int64(ld.LogRecordCount()); return sinkErr })
		p, err := processorhelper.NewLogs(context.Background(), set, struct{}{}, sink, func(_ context.Context, ld plog.Logs) (plog.Logs, error) {
			if cow {
				n := plog.NewLogs()
				ld.CopyTo(n)
				ld = n
			}
			switch action {
			case 1: // drop the first resource
				dropped := false
				ld.ResourceLogs().RemoveIf(func(plog.ResourceLogs) bool { d := !dropped; dropped = true; return d })
			case 2: // add a record
				ld.ResourceLogs().AppendEmpty().ScopeLogs().AppendEmpty().LogRecords().AppendEmpty().Attributes().PutStr(gen.IDKey, ids.Next())
			case 3:
				return ld, processorhelper.ErrSkipProcessingData
			case 4:
				return ld, errTransient
			}
			curOut = ld.LogRecordCount()
			return ld, nil
		}, opts...)
		if err != nil {
			panic(err)
		}
		consume = func(ctx context.Context, x any) error { return p.ConsumeLogs(ctx, x.(plog.Logs)) }
	case "traces":
		sink, _ := consumer.NewTraces(func(_ context.Context, td ptrace.Traces) error { sinkGot += int64(td.SpanCount()); return sinkErr })
		p, err := processorhelper.NewTraces(context.Background(), set, struct{}{}, sink, func(_ context.Context, td ptrace.Traces) (ptrace.Traces, error) {
			if cow {
				n := ptrace.NewTraces()
				td.CopyTo(n)
				td = n
			}
			switch action {
			case 1:
				dropped := false
				td.ResourceSpans().RemoveIf(func(ptrace.ResourceSpans) bool { d := !dropped; dropped = true; return d })
			case 2:
				td.ResourceSpans().AppendEmpty().ScopeSpans().AppendEmpty().Spans().AppendEmpty().Attributes().PutStr(gen.IDKey, ids.Next())
			case 3:
				return td, processorhelper.ErrSkipProcessingData
			case 4:
				return td, errTransient
			}
			curOut = td.SpanCount()
			return td, nil
		}, opts...)
		if err != nil {
			panic(err)
		}
		consume = func(ctx context.Context, x any) error { return p.ConsumeTraces(ctx, x.(ptrace.Traces)) }
	default:
		sink, _ := consumer.NewMetrics(func(_ context.Context, md pmetric.Metrics) error {
			sinkGot += int64(md.DataPointCount())
			return sinkErr
		})
		p, err := processorhelper.NewMetrics(context.Background(), set, struct{}{}, sink, func(_ context.Context, md pmetric.Metrics) (pmetric.Metrics, error) {
			if cow {
				n := pmetric.NewMetrics()
				md.CopyTo(n)
				md = n
			}
			switch action {
			case 1:
				dropped := false
				md.ResourceMetrics().RemoveIf(func(pmetric.ResourceMetrics) bool { d := !dropped; dropped = true; return d })
			case 2:
				md.ResourceMetrics().AppendEmpty().ScopeMetrics().AppendEmpty().Metrics().AppendEmpty().SetEmptyGauge().DataPoints().AppendEmpty().Attributes().PutStr(gen.IDKey, ids.Next())
			case 3:
				return md, processorhelper.ErrSkipProcessingData
			case 4:
				return md, errTransient
			}
			curOut = md.DataPointCount()
			return md, nil
		}, opts...)
		if err != nil {
			panic(err)
		}
		consume = func(ctx context.Context, x any) error { return p.ConsumeMetrics(ctx, x.(pmetric.Metrics)) }
	}
	steps := tp.Range(3, 20)
	for i := 0; i < steps; i++ {
		payload := ad.gen(tp, ids, gen.Shape{MaxResources: 2, MaxScopes: 2, MaxMetrics: 2, MaxItems: 3})
		n := int64(len(ad.items(payload)))
		action = tp.Weighted(3, 1, 1, 1, 1)
		sinkErr = nil
		if tp.Chance(1, 4) {
			sinkErr = errTransient
			r.Count("fault.downstream_error")
		}
		if action >= 3 {
			r.Count(fmt.Sprintf("fault.processor_action_%d", action))
		}
		curOut = -1
		var err error
		r.Fire(fmt.Sprintf("consume:%d:action%d:sink=%s", n, action, simkit.ShortErr(sinkErr)), func() { err = consume(context.Background(), payload) })
		given += n
		if curOut >= 0 {
			forwarded += int64(curOut)
		}
		// result propagation
		switch {
		case action == 3 && err != nil:
			r.Failf("processor", "skip-returned-error", "ErrSkipProcessingData surfaced as %v", err)
		case action == 4 && !errors.Is(err, errTransient):
			r.Failf("processor", "process-error-lost", "process function failed but Consume returned %v", err)
		case action < 3 && !errors.Is(err, sinkErr) && !(err == nil && sinkErr == nil):
			r.Failf("processor", "downstream-result", "downstream returned %v, Consume returned %v", sinkErr, err)
		}
		in := sumCounter(tel, "otelcol_processor_incoming_items")
		out := sumCounter(tel, "otelcol_processor_outgoing_items")
		if in != given || out != forwarded {
			r.Failf("balance", "processor/"+sig, "processor counters incoming=%d outgoing=%d, ledger given=%d forwarded=%d", in, out, given, forwarded)
		}
		if sinkGot != forwarded {
			r.Failf("balance", "processor-sink/"+sig, "sink received %d items, processor forwarded %d", sinkGot, forwarded)
		}
		r.Nontrivial = r.Nontrivial || action != 0 || sinkErr != nil
		if r.Failed() {
			return
		}
	}
}

// ---- scraper controller: virtual-clock ticker, failing / partial scrapers, downstream outcomes ----------------

func runC19Scraper(r *simkit.Run) {
	tp := r.Tape
	start := time.Now()
	tel := componenttest.NewTelemetry()
	defer tel.Shutdown(context.Background()) //nolint:errcheck
	sig := []string{"metrics", "logs"}[tp.Draw(2)]
	nscr := tp.Range(1, 3)
	interval := time.Duration(tp.Range(1, 60)) * time.Second
	delay := time.Duration(tp.Draw(3)) * time.Second
	r.Sample = map[string]any{"sub": "scraper", "signal": sig, "scrapers": nscr, "interval_s": interval.Seconds(), "initial_delay_s": delay.Seconds()}
	set := receiver.Settings{ID: component.MustNewID("simscraper"), TelemetrySettings: tel.NewTelemetrySettings(), BuildInfo: component.NewDefaultBuildInfo()}
	ids := &gen.IDs{Prefix: "i"}
	cfg := scraperhelper.NewDefaultControllerConfig()
	cfg.CollectionInterval = interval
	cfg.InitialDelay = delay

	// per-scrape plan, decided by the scheduler before time advances
	type plan struct{ kind, n, failed int } // kind 0 ok, 1 error, 2 partial, 3 partial wrapped in another error
	plans := make([]plan, nscr)
	var sinkErr error
	var offered, accepted, refused int64 // receiver-level ledger
	var scraped, errored int64           // scraper-level ledger
	var sinkGot int64
	var opts []scraperhelper.ControllerOption
	var rcv component.Component
	var err error
	if sig == "metrics" {
		for i := 0; i < nscr; i++ {
			i := i
			sc, _ := scraper.NewMetrics(func(context.Context) (pmetric.Metrics, error) {
				p := plans[i]
				md := pmetric.NewMetrics()
				g := md.ResourceMetrics().AppendEmpty().ScopeMetrics().AppendEmpty().Metrics().AppendEmpty().SetEmptyGauge()
				for k := 0; k < p.n; k++ {
					g.DataPoints().AppendEmpty().Attributes().PutStr(gen.IDKey, ids.Next())
				}
				switch p.kind {
				case 1:
					return md, errTransient
				case 2:
					return md, scrapererror.NewPartialScrapeError(errTransient, p.failed)
				case 3:
					return md, fmt.Errorf("scraper s%d: %w", i, scrapererror.NewPartialScrapeError(errTransient, p.failed))
				}
				return md, nil
			})
			opts = append(opts, scraperhelper.AddScraper(component.MustNewType(fmt.Sprintf("s%d", i)), sc))
		}
		sink, _ := consumer.NewMetrics(func(_ context.Context, md pmetric.Metrics) error {
			sinkGot += int64(md.DataPointCount())
			return sinkErr
		})
		rcv, err = scraperhelper.NewMetricsController(&cfg, set, sink, opts...)
	} else {
		for i := 0; i < nscr; i++ {
			i := i
			f := scraper.NewFactory(component.MustNewType(fmt.Sprintf("s%d", i)), nil, scraper.WithLogs(func(context.Context, scraper.Settings, component.Config) (scraper.Logs, error) {
				return scraper.NewLogs(func(context.Context) (plog.Logs, error) {
					p := plans[i]
					ld := plog.NewLogs()
					sl := ld.ResourceLogs().AppendEmpty().ScopeLogs().AppendEmpty()
					for k := 0; k < p.n; k++ {
						sl.LogRecords().AppendEmpty().Attributes().PutStr(gen.IDKey, ids.Next())
					}
					switch p.kind {
					case 1:
						return ld, errTransient
					case 2:
						return ld, scrapererror.NewPartialScrapeError(errTransient, p.failed)
					case 3:
						return ld, fmt.Errorf("scraper s%d: %w", i, scrapererror.NewPartialScrapeError(errTransient, p.failed))
					}
					return ld, nil
				})
			}, component.StabilityLevelAlpha))
			opts = append(opts, scraperhelper.AddFactoryWithConfig(f, nil))
		}
		sink, _ := consumer.NewLogs(func(_ context.Context, ld plog.Logs) error {
			sinkGot += int64(ld.LogRecordCount())
			return sinkErr
		})
		rcv, err = scraperhelper.NewLogsController(&cfg, set, sink, opts...)
	}
	if err != nil {
		panic(err)
	}
	draw := func() {
		var off int64
		for i := range plans {
			plans[i] = plan{kind: tp.Weighted(4, 1, 1, 1), n: tp.Draw(5), failed: 1 + tp.Draw(3)} // 3: a partial error wrapped by the scraper
			switch plans[i].kind {
			case 0:
				off += int64(plans[i].n)
				scraped += int64(plans[i].n)
			case 1:
				r.Count("fault.scrape_error")
			case 2, 3:
				r.Count("fault.scrape_partial")
				off += int64(plans[i].n)
				scraped += int64(plans[i].n)
				errored += int64(plans[i].failed)
			}
		}
		sinkErr = nil
		if tp.Chance(1, 4) {
			sinkErr = errTransient
			r.Count("fault.downstream_error")
		}
		offered += off
		if sinkErr == nil {
			accepted += off
		} else {
			refused += off
		}
	}
	draw() // plan of the first scrape (after the initial delay)
	if err := rcv.Start(context.Background(), componenttest.NewNopHost()); err != nil {
		panic(err)
	}
	check := func(when string) {
		item := sigItem[sig]
		a := sumCounter(tel, "otelcol_receiver_accepted_"+item)
		f := sumCounter(tel, "otelcol_receiver_refused_"+item)
		sc := sumCounter(tel, "otelcol_scraper_scraped_"+item)
		se := sumCounter(tel, "otelcol_scraper_errored_"+item)
		if a != accepted || f != refused {
			// which counters did it land in instead?
			other := "metric_points"
			if sig == "metrics" {
				other = "log_records"
			}
			oa := sumCounter(tel, "otelcol_receiver_accepted_"+other)
			of := sumCounter(tel, "otelcol_receiver_refused_"+other)
			locus := "scraper-receiver/" + sig
			if oa+of == offered && a+f == 0 {
				locus += "/recorded-under-other-signal"
			}
			r.Failf("balance", locus, "%s: receiver counters accepted_%s=%d refused_%s=%d (accepted_%s=%d refused_%s=%d), ledger accepted=%d refused=%d offered=%d", when, item, a, item, f, other, oa, other, of, accepted, refused, offered)
		}
		// (the scraper-level scraped/errored counters are outside the property: it speaks of accepted + refused)
		_, _ = sc, se
		if sinkGot != offered {
			r.Failf("balance", "scraper-sink/"+sig, "%s: sink received %d items, scrapers produced %d", when, sinkGot, offered)
		}
	}
	// first scrape happens after the initial delay
	r.Fire("advance:initial_delay", func() { time.Sleep(delay) })
	check("after first scrape")
	ticks := tp.Range(1, 10)
	for i := 0; i < ticks && !r.Failed(); i++ {
		draw()
		r.Fire("advance:collection_interval", func() { time.Sleep(interval) })
		check(fmt.Sprintf("after tick %d", i+1))
		r.Nontrivial = true
	}
	sd := simkit.Go("shutdown", func(t *simkit.Task) { t.Err = rcv.Shutdown(context.Background()) })
	r.Settle()
	if !sd.Done() {
		r.Failf("liveness", "scraper-shutdown", "scraper controller did not shut down")
	}
	before := sinkGot
	r.Fire("advance:after_shutdown", func() { time.Sleep(3 * interval) })
	if sinkGot != before {
		r.Failf("shutdown", "scrape-after-shutdown", "the controller scraped after Shutdown returned")
	}
	r.Virtual = time.Since(start)
}

var HarnessC19 = simkit.Harness{
	Prop: "C19", Name: "exp/c19", Run: runC19, StepTimeout: 10e9,
	Real: append([]string{"receiverhelper.ObsReport", "processorhelper.NewLogs/NewTraces/NewMetrics", "scraperhelper controllers (metrics and logs) with their obs wrappers, on the virtual-clock ticker", "OTel metrics SDK counters read through a manual reader"}, fullReal...),
	Stub: append([]string{"scrapers (tape-planned ok / error / partial)", "process functions (pass / drop / add / skip / fail)", "downstream sinks (ok / error)"}, fullStub...),
	Rule: "one run = one of four sub-simulations chosen by the tape: (a) the full exporter stack of C03 with queue-full refusals, retries, partial failures and shutdown, (b) concurrent receiver operations of three signals ended in a schedule-chosen order with downstream outcomes, (c) a helper-built processor whose function passes / drops / adds / skips / fails with a failing or accepting downstream, (d) a scraper controller on the virtual clock with 1-3 scrapers that succeed, fail or fail partially; the ledger kept by the simulated sinks is compared with the SDK counters after every step (exporter: after shutdown); distinct = distinct event-log hash; non-trivial = overlap of operations / a non-pass action / at least one tick / steps during draining",
}
