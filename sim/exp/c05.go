package verifsim

import (
	"context"
	"errors"
	"fmt"
	"sort"
	"strings"
	"testing/synctest"
	"time"

	"go.opentelemetry.io/collector/component"
	"go.opentelemetry.io/collector/component/componenttest"
	"go.opentelemetry.io/collector/config/configretry"
	"go.opentelemetry.io/collector/consumer/consumererror"
	"go.opentelemetry.io/collector/exporter"
	"go.opentelemetry.io/collector/exporter/exporterhelper"
	"go.opentelemetry.io/collector/exporter/exporterhelper/internal/experr"
	"go.opentelemetry.io/collector/exporter/exporterhelper/internal/queuebatch"
	"verif.local/simkit"
	"verif.local/simkit/gen"
)

// ---- C05: retry sender vs. a reference retry model written from the property text ---------------------------

type c05Cfg struct {
	Signal     string   `json:"signal"`
	Enabled    bool     `json:"retry_enabled"`
	InitialMs  int      `json:"initial_interval_ms"`
	MaxMs      int      `json:"max_interval_ms"`
	Mult       float64  `json:"multiplier"`
	RF         float64  `json:"randomization_factor"`
	ElapsedMs  int      `json:"max_elapsed_time_ms"`
	TimeoutMs  int      `json:"attempt_timeout_ms"`
	DeadlineMs int      `json:"caller_deadline_ms"`
	Script     []string `json:"outcomes"`
	ShutAt     int      `json:"shutdown_in_wait_after_attempt"` // 0 = no shutdown
	ShutFrac   int      `json:"shutdown_at_percent_of_min_wait"`
	Persistent bool     `json:"persistent_queue"`
	// Shape: how the backend's permanent / throttling / transient errors are dressed: as they are, wrapped with %w, or
	// joined with another (plain) error; their meaning is the same
	Shape string `json:"error_shape"`
	// CancelAt > 0: the caller cancels its context inside the wait that follows that attempt (no queue: the retry
	// loop runs on the caller's goroutine); CancelFrac as ShutFrac
	CancelAt   int `json:"caller_cancels_after_attempt,omitempty"`
	CancelFrac int `json:"caller_cancels_at_percent_of_wait,omitempty"`
	// ShutDuring > 0: Shutdown is requested while that attempt is in flight (before the backend answers it)
	ShutDuring int `json:"shutdown_during_attempt,omitempty"`
	// Interloper > 0: right after that attempt of the request under observation has failed, ANOTHER request passes
	// through the same exporter (no queue: a second caller) and succeeds at once; it must not change the waits of the first
	Interloper int `json:"other_request_passes_after_attempt,omitempty"`
}

func c05Config(tp *simkit.Tape) c05Cfg {
	c := c05Cfg{}
	c.Signal = adapters[tp.Draw(3)].name
	c.Enabled = !tp.Chance(1, 8)
	c.InitialMs = []int{100, 500, 1000, 5000, 0}[tp.Weighted(3, 3, 3, 3, 1)] // 0: every computed wait is zero
	c.MaxMs = c.InitialMs * []int{1, 2, 4, 10}[tp.Draw(4)]
	c.Mult = []float64{1, 1.5, 2}[tp.Draw(3)]
	if tp.Chance(1, 5) {
		c.RF = 0.5
	}
	c.ElapsedMs = []int{0, 3000, 20000, 120000}[tp.Draw(4)]
	if c.ElapsedMs > 0 && c.ElapsedMs < c.MaxMs {
		c.ElapsedMs = c.MaxMs
	}
	c.TimeoutMs = []int{0, 2000}[tp.Draw(2)]
	c.DeadlineMs = []int{0, 0, 4000, 30000}[tp.Draw(4)]
	n := tp.Range(1, 7)
	kinds := []string{"ok", "transient", "permanent", "throttle", "partial", "hang"}
	for i := 0; i < n; i++ {
		k := kinds[tp.Weighted(2, 5, 1, 2, 2, 1)]
		if k == "throttle" {
			k = fmt.Sprintf("throttle:%d", []int{50, 700, 3000, 15000}[tp.Draw(4)])
			if tp.Chance(1, 4) {
				k += "+partial" // one answer that both asks for a delay and names the undelivered subset
			}
		}
		if c.TimeoutMs > 0 && c.DeadlineMs == 0 && k != "ok" && k != "hang" && tp.Chance(1, 5) {
			// the backend's own verdict arrives only after the per-attempt timeout has run out (a client that finishes
			// what it can, then reports): the verdict means what it says all the same
			k = "late:" + k
		}
		c.Script = append(c.Script, k)
	}
	c.Shape = []string{"plain", "wrapped", "joined"}[tp.Weighted(2, 1, 1)]
	if tp.Chance(1, 4) {
		c.ShutAt = tp.Range(1, n)
		c.ShutFrac = []int{0, 50, 99}[tp.Draw(3)]
		c.Persistent = tp.Chance(1, 2)
	} else if tp.Chance(1, 6) {
		c.CancelAt = tp.Range(1, n)
		c.CancelFrac = []int{0, 50, 99}[tp.Draw(3)]
	} else if tp.Chance(1, 5) {
		c.ShutDuring = tp.Range(1, n)
		c.Persistent = tp.Chance(1, 2)
	} else if tp.Chance(1, 4) {
		c.Interloper = tp.Range(1, n)
	}
	return c
}

func ms(n int) time.Duration { return time.Duration(n) * time.Millisecond }

func runC05(r *simkit.Run) {
	tp := r.Tape
	if tp.Chance(1, 8) {
		// supplement for the last clause with split requests: the full exporter simulation (persistent queue, retry,
		// optional legacy batcher) with the "no final outcome => still stored" oracle
		r.Logf("supplement: shutdown-interrupted retries of (split) requests on a persistent queue")
		runFull(r, "C05")
		return
	}
	cfg := c05Config(tp)
	r.Sample = cfg
	queuebatch.VerifResetPools()
	begin := time.Now()
	ad := adapterByName(cfg.Signal)
	be := newBackend(ad, func() int64 { return time.Now().UnixNano() })
	be.evNow = func() int { return r.Events }
	aCalls := 0 // calls that carry the observed request (its item ids start with "i"; another caller's start with "j")
	be.deaf = func(c *backendCall) bool {
		for id := range c.Items {
			if strings.HasPrefix(id, "j") {
				return false
			}
		}
		aCalls++
		return aCalls <= len(cfg.Script) && strings.HasPrefix(cfg.Script[aCalls-1], "late:")
	}
	disk := NewDisk()
	inc := disk.NewIncarnation(1)

	rc := configretry.NewDefaultBackOffConfig()
	rc.Enabled = cfg.Enabled
	rc.InitialInterval = ms(cfg.InitialMs)
	rc.MaxInterval = ms(cfg.MaxMs)
	rc.Multiplier = cfg.Mult
	rc.RandomizationFactor = cfg.RF
	rc.MaxElapsedTime = ms(cfg.ElapsedMs)
	if err := rc.Validate(); err != nil {
		panic("harness: invalid retry config: " + err.Error())
	}
	build := func(b *backend) simExporter {
		opts := []exporterhelper.Option{exporterhelper.WithRetry(rc), exporterhelper.WithTimeout(exporterhelper.TimeoutConfig{Timeout: ms(cfg.TimeoutMs)})}
		if cfg.Persistent {
			qc := exporterhelper.NewDefaultQueueConfig()
			qc.NumConsumers = 1
			qc.QueueSize = 10
			sid := storageID
			qc.StorageID = &sid
			opts = append(opts, exporterhelper.WithQueue(qc))
		}
		set := exporter.Settings{ID: component.MustNewID("simexp"), TelemetrySettings: componenttest.NewNopTelemetrySettings(), BuildInfo: component.NewDefaultBuildInfo()}
		e, err := ad.newExp(set, b.push, opts...)
		if err != nil {
			panic(err)
		}
		return e
	}
	exp := build(be)
	host := &simHost{ext: map[component.ID]component.Component{storageID: inc}}
	if err := exp.Start(context.Background(), host); err != nil {
		panic(err)
	}
	ids := &gen.IDs{Prefix: "i"}
	payload := ad.gen(tp, ids, gen.Shape{MaxResources: 2, MaxScopes: 2, MaxMetrics: 2, MaxItems: 3, NonEmpty: true})
	want := ad.items(payload) // what the next attempt must carry
	ctx := context.Background()
	var cancel context.CancelFunc = func() {}
	var deadline time.Time
	if cfg.DeadlineMs > 0 && !cfg.Persistent {
		deadline = time.Now().Add(ms(cfg.DeadlineMs))
		ctx, cancel = context.WithDeadline(ctx, deadline)
	} else if cfg.CancelAt > 0 {
		ctx, cancel = context.WithCancel(ctx)
	}
	defer cancel()
	t0 := time.Now()
	task := simkit.Go("caller", func(t *simkit.Task) { t.Err = exp.Consume(ctx, payload) })
	r.Settle()
	if cfg.Persistent {
		// with a queue the caller returns at once; the retry loop runs on the consumer goroutine
		if !task.Done() || task.Err != nil {
			r.Failf("harness", "enqueue", "enqueue into the persistent queue failed: %v", task.Err)
			return
		}
	}

	cur := ms(cfg.InitialMs) // c_n of the reference model
	verdict := ""            // "", "success", "permanent", "gave-up", "shutdown"
	var lastEnd time.Time
	shutFired := false
	attempt := 0
	exact := cfg.RF == 0
	stamp := func(d time.Duration) string {
		if exact {
			return d.String()
		}
		return "~"
	}
	for attempt < 40 {
		parked := be.gate.Parked()
		if len(parked) == 0 {
			break
		}
		attempt++
		c := be.call(len(be.snapshot()))
		at := time.Unix(0, c.At)
		r.Logf("attempt %d at t+%s with %d items", attempt, stamp(at.Sub(t0)), len(c.Items))
		// payload of this attempt
		if d := gen.DiffItems(want, c.Items); d != "" {
			r.Failf("payload", "attempt-payload", "attempt %d carries the wrong data: %s", attempt, d)
		}
		if attempt > 1 {
			gap := at.Sub(lastEnd)
			lo := time.Duration(float64(cur) * (1 - cfg.RF))
			hi := time.Duration(float64(cur) * (1 + cfg.RF))
			if thr := throttleOf(cfg.Script, attempt-1); thr > 0 {
				if gap < thr {
					r.Failf("backoff", "throttle-ignored", "attempt %d came %s after a throttling answer asking for %s", attempt, gap, thr)
				}
				if thr > hi {
					hi = thr
				}
				if thr > lo {
					lo = thr
				}
			}
			if gap < lo-time.Millisecond || gap > hi+time.Millisecond {
				r.Failf("backoff", "outside-envelope", "wait before attempt %d was %s, the back-off envelope is [%s, %s] (interval %s, randomization %.1f)", attempt, gap, lo, hi, cur, cfg.RF)
			}
			// c_{n+1} = min(c_n * multiplier, max_interval)
			cur = time.Duration(float64(cur) * cfg.Mult)
			if cur > ms(cfg.MaxMs) {
				cur = ms(cfg.MaxMs)
			}
		}
		if verdict != "" {
			r.Failf("retry", "attempt-after-verdict", "attempt %d was made after the request had already ended with %s", attempt, verdict)
			break
		}
		kind := "ok"
		if attempt <= len(cfg.Script) {
			kind = cfg.Script[attempt-1]
		}
		late := strings.HasPrefix(kind, "late:")
		kind = strings.TrimPrefix(kind, "late:")
		var outcome error
		switch {
		case kind == "ok":
		case kind == "transient":
			outcome = errTransient
			r.Count("fault.transient")
		case kind == "permanent":
			outcome = errPermanent
			r.Count("fault.permanent")
		case strings.HasPrefix(kind, "throttle") && !strings.HasSuffix(kind, "+partial"):
			outcome = exporterhelper.NewThrottleRetry(errTransient, throttleOf(cfg.Script, attempt))
			r.Count("fault.throttle")
		case kind == "partial" || strings.HasSuffix(kind, "+partial"):
			keys := make([]string, 0, len(c.Items))
			for k := range c.Items {
				keys = append(keys, k)
			}
			sort.Strings(keys)
			keep := map[string]bool{}
			for i, k := range keys {
				if i%2 == 0 {
					keep[k] = true
				}
			}
			var n int
			outcome, n = ad.partial(c.Payload, keep)
			{
				nw := map[string]string{}
				for k := range keep {
					nw[k] = want[k]
				}
				want = nw
			}
			_ = n
			r.Count("fault.partial")
			if strings.HasPrefix(kind, "throttle") {
				r.Count("fault.throttle_and_partial_in_one_answer")
				thr := exporterhelper.NewThrottleRetry(errTransient, throttleOf(cfg.Script, attempt))
				if cfg.Shape == "joined" {
					outcome = errors.Join(outcome, thr)
				} else {
					outcome = exporterhelper.NewThrottleRetry(outcome, throttleOf(cfg.Script, attempt))
				}
			}
		case kind == "hang":
			r.Count("fault.hang")
		}
		if outcome != nil && kind != "partial" {
			switch cfg.Shape {
			case "wrapped":
				outcome = fmt.Errorf("backend client: %w", outcome)
			case "joined":
				outcome = errors.Join(errors.New("sim backend: a second, unclassified complaint"), outcome)
			}
		}
		id := parked[0]
		duringShut := false
		if cfg.ShutDuring == attempt && !shutFired && kind != "hang" && !late {
			// Shutdown is requested while this attempt is in flight; the backend answers afterwards
			shutFired = true
			duringShut = true
			r.Count("fault.shutdown_during_attempt")
			simkit.Go("shutdown", func(t *simkit.Task) { t.Err = exp.Shutdown(context.Background()) })
			r.Fire("shutdown-during-attempt", func() {})
		}
		if kind == "hang" {
			// the backend never answers: the attempt ends by its timeout or the caller's deadline, if any
			lim := time.Duration(0)
			if cfg.TimeoutMs > 0 {
				lim = ms(cfg.TimeoutMs)
			}
			if !deadline.IsZero() && (lim == 0 || deadline.Sub(at) < lim) {
				lim = deadline.Sub(at)
			}
			if lim <= 0 {
				// nothing bounds the attempt: answer transient after a long while
				r.Fire("advance:1h-then-transient", func() { time.Sleep(time.Hour); be.answer(id, errTransient) })
				lastEnd = time.Now()
			} else {
				end := at.Add(lim)
				if !deadline.IsZero() && deadline.Before(end) {
					end = deadline
				}
				r.Fire("advance:until-attempt-times-out", func() {
					if d := time.Until(end); d > 0 {
						time.Sleep(d)
					}
				})
				if be.gate.IsParked(id) {
					r.Failf("timeout", "attempt-not-bounded", "attempt %d still running %s after it began (timeout %dms, deadline %dms)", attempt, lim, cfg.TimeoutMs, cfg.DeadlineMs)
					be.answer(id, errTransient)
					r.Settle()
				}
				lastEnd = end
			}
			outcome = errTransient
		} else {
			if late {
				r.Count("fault.verdict_after_attempt_timeout")
				end := at.Add(ms(cfg.TimeoutMs))
				r.Fire("advance:until-attempt-times-out", func() {
					if d := time.Until(end); d > 0 {
						time.Sleep(d)
					}
				})
			}
			r.Fire(fmt.Sprintf("answer:%d:%s", attempt, kind), func() { be.answer(id, outcome) })
			lastEnd = time.Now()
		}
		// the reference model's verdict for this answer
		switch {
		case outcome == nil:
			verdict = "success"
		case consumererror.IsPermanent(outcome):
			verdict = "permanent"
		case !cfg.Enabled:
			verdict = "gave-up"
		}
		if verdict != "" {
			// nothing may follow: let a long time pass
			r.Fire("advance:long", func() { time.Sleep(10 * time.Minute) })
			continue
		}
		// retry expected unless the budget or the deadline forbids it; let the longest possible wait pass
		hi := time.Duration(float64(cur)*(1+cfg.RF)) + time.Millisecond
		if thr := throttleOf(cfg.Script, attempt); thr > hi {
			hi = thr + time.Millisecond
		}
		nextLo := lastEnd.Add(time.Duration(float64(cur) * (1 - cfg.RF)))
		nextHi := lastEnd.Add(hi)
		if thr := throttleOf(cfg.Script, attempt); thr > 0 && lastEnd.Add(thr).After(nextLo) {
			nextLo = lastEnd.Add(thr)
		}
		// model: is a retry allowed?
		mustNot, must := false, true
		if cfg.ElapsedMs > 0 {
			limit := t0.Add(ms(cfg.ElapsedMs))
			if cfg.Persistent {
				limit = time.Unix(0, be.call(1).At).Add(ms(cfg.ElapsedMs))
			}
			if nextLo.After(limit) {
				mustNot = true
			}
			if !nextHi.Before(limit) {
				must = false
			}
		}
		if !deadline.IsZero() {
			if nextLo.After(deadline) {
				mustNot = true
			}
			if !nextHi.Before(deadline) {
				must = false
			}
		}
		if mustNot {
			must = false
		}
		if duringShut {
			// the exporter is shutting down: a failed attempt is not retried, whatever the wait would have been. Whether
			// the request ends as a final failure (budget used up) or is kept (interrupted by shutdown) follows the budget.
			switch {
			case mustNot:
				verdict = "gave-up-during-shutdown"
			case must:
				verdict = "shutdown-during"
			default:
				verdict = "shutdown-during-or-gave-up"
			}
			r.Fire("advance:long", func() { time.Sleep(10 * time.Minute) })
			continue
		}
		if cfg.Interloper == attempt && len(be.gate.Parked()) == 0 && !task.Done() && !cfg.Persistent {
			// another caller's request goes through the same exporter now and is accepted at once
			r.Count("fault.other_request_passes_through")
			other := ad.gen(tp, &gen.IDs{Prefix: "j"}, gen.Shape{MaxResources: 1, MaxScopes: 1, MaxMetrics: 1, MaxItems: 2, NonEmpty: true})
			tb := simkit.Go("other-caller", func(t *simkit.Task) { t.Err = exp.Consume(context.Background(), other) })
			r.Fire("other-request", func() {})
			for _, pid := range be.gate.Parked() {
				if strings.HasPrefix(pid, "call:j") {
					pid := pid
					r.Fire("answer-other:ok", func() { be.answer(pid, nil) })
				}
			}
			if !tb.Done() || tb.Err != nil {
				r.Failf("harness", "other-request", "the other caller's request did not go through (done=%v err=%v)", tb.Done(), tb.Err)
			}
		}
		if must && cfg.ShutAt == attempt && !shutFired {
			// shutdown arrives inside the wait that follows this attempt
			lo := time.Duration(float64(cur) * (1 - cfg.RF))
			wait := lo * time.Duration(cfg.ShutFrac) / 100
			if wait > 0 {
				r.Fire("advance:into-the-wait", func() { time.Sleep(wait) })
			}
			if len(be.gate.Parked()) == 0 && !(task.Done() && !cfg.Persistent) {
				shutFired = true
				r.Count("fault.shutdown_in_wait")
				sh := simkit.Go("shutdown", func(t *simkit.Task) { t.Err = exp.Shutdown(context.Background()) })
				r.Fire("shutdown", func() {})
				if !sh.Done() {
					r.Failf("liveness", "shutdown-blocked-by-retry-wait", "Shutdown did not return while a retry was waiting")
				}
				verdict = "shutdown"
				break
			}
		}
		if must && cfg.CancelAt == attempt && cfg.DeadlineMs == 0 && verdict == "" {
			// the caller gives up inside the wait that follows this attempt: the wait ends at once, with an error, and
			// no further attempt is made
			lo := time.Duration(float64(cur) * (1 - cfg.RF))
			wait := lo * time.Duration(cfg.CancelFrac) / 100
			if wait > 0 {
				r.Fire("advance:into-the-wait", func() { time.Sleep(wait) })
			}
			if len(be.gate.Parked()) == 0 && !task.Done() {
				r.Count("fault.caller_cancelled_in_wait")
				r.Fire("caller-cancels", func() { cancel() })
				if !task.Done() {
					r.Failf("liveness", "cancelled-caller-still-waiting", "the caller's context was cancelled during a retry wait but the call did not return")
				}
				verdict = "cancelled"
			}
		}
		if verdict != "" {
			r.Fire("advance:long", func() { time.Sleep(10 * time.Minute) })
			continue
		}
		r.Fire("advance:max-wait", func() {
			// advance in small quanta so that the scheduler regains control as soon as the next attempt begins
			// (an attempt's own timeout must not run out while the scheduler is still asleep)
			quantum := hi
			if !exact {
				quantum = 20 * time.Millisecond
			}
			for left := hi; left > 0 && len(be.gate.Parked()) == 0 && (cfg.Persistent || !task.Done()); left -= quantum {
				d := quantum
				if left < d {
					d = left
				}
				time.Sleep(d)
				synctest.Wait()
				simkit.Beat()
			}
		})
		retried := len(be.gate.Parked()) > 0
		if retried && mustNot {
			r.Failf("retry", "retried-beyond-limit", "attempt %d was retried although the next attempt could not fit in the elapsed-time budget / deadline", attempt)
		}
		if !retried && must {
			r.Failf("retry", "not-retried", "attempt %d failed with a retryable error and budget and deadline allowed a retry, but none came within %s", attempt, hi)
		}
		if !retried {
			verdict = "gave-up"
			r.Fire("advance:long", func() { time.Sleep(10 * time.Minute) })
		}
		if r.Failed() {
			break
		}
	}
	r.Settle()
	// ---- final result
	if !r.Failed() && !cfg.Persistent {
		if !task.Done() {
			r.Failf("liveness", "caller-never-returns", "the caller has not returned (verdict %s)", verdict)
		} else {
			err := task.Err
			r.Logf("caller returned %s (model verdict %s)", simkit.ShortErr(err), verdict)
			switch verdict {
			case "success":
				if err != nil {
					r.Failf("result", "success-reported-as-error", "the backend accepted the data but the caller got %v", err)
				}
			case "permanent":
				if err == nil || !consumererror.IsPermanent(err) {
					r.Failf("result", "permanent-not-reported", "permanent failure reported as %v", err)
				}
				if experr.IsShutdownErr(err) {
					// shutdown-classified means "interrupted, keep the request and send it again": not after a verdict
					r.Failf("result", "permanent-verdict-classified-as-shutdown", "the backend's permanent verdict is reported as a shutdown interruption (a queue would keep the request and send it again): %v", err)
				}
			case "gave-up":
				if err == nil {
					r.Failf("result", "failure-reported-as-success", "retries ended without success but the caller got nil")
				}
				if experr.IsShutdownErr(err) {
					r.Failf("result", "spurious-shutdown-error", "no shutdown happened but the error is shutdown-classified: %v", err)
				}
			case "cancelled":
				if err == nil {
					r.Failf("result", "failure-reported-as-success", "the caller cancelled during a retry wait after a failed attempt but got nil")
				}
				if experr.IsShutdownErr(err) {
					r.Failf("result", "spurious-shutdown-error", "no shutdown happened but the error is shutdown-classified: %v", err)
				}
			case "shutdown-during", "gave-up-during-shutdown", "shutdown-during-or-gave-up":
				if err == nil {
					r.Failf("result", "failure-reported-as-success", "the attempt in flight when Shutdown was requested failed but the caller got nil")
				}
			case "shutdown":
				if err == nil || !experr.IsShutdownErr(err) {
					r.Failf("result", "shutdown-not-classified", "a retry wait interrupted by shutdown ended with %v, which is not shutdown-classified", err)
				}
			}
		}
	}
	if !r.Failed() && cfg.Persistent && shutFired && (verdict == "permanent" || verdict == "success") {
		// the request got its verdict (from the attempt in flight when Shutdown was requested, or before): the next
		// incarnation must not hand it over again
		be2 := newBackend(ad, func() int64 { return time.Now().UnixNano() })
		exp2 := build(be2)
		inc2 := disk.NewIncarnation(2)
		if err := exp2.Start(context.Background(), &simHost{ext: map[component.ID]component.Component{storageID: inc2}}); err != nil {
			panic(err)
		}
		r.Settle()
		if p := be2.gate.Parked(); len(p) > 0 {
			r.Failf("retry", "attempt-after-verdict/next-incarnation", "the request ended with verdict %s while the exporter was shutting down, yet the next incarnation hands it over again", verdict)
			be2.gate.ReleaseAll(nil)
			r.Settle()
		}
		r.Count("probe.restart_after_verdict_during_shutdown")
		sd := simkit.Go("sd2", func(t *simkit.Task) { t.Err = exp2.Shutdown(context.Background()) })
		r.Settle()
		_ = sd
	}
	if !r.Failed() && cfg.Persistent && (verdict == "shutdown" || verdict == "shutdown-during") { // (not for the two other during-shutdown verdicts)
		// the request must still be stored: a fresh incarnation hands it over again
		be2 := newBackend(ad, func() int64 { return time.Now().UnixNano() })
		exp2 := build(be2)
		inc2 := disk.NewIncarnation(2)
		if err := exp2.Start(context.Background(), &simHost{ext: map[component.ID]component.Component{storageID: inc2}}); err != nil {
			panic(err)
		}
		r.Settle()
		got := map[string]string{}
		for i := 0; i < 20; i++ {
			p := be2.gate.Parked()
			if len(p) == 0 {
				break
			}
			for id, fp := range be2.call(len(be2.snapshot())).Items {
				got[id] = fp
			}
			be2.answer(p[0], nil)
			r.Settle()
		}
		// TODO(partial): the persistent queue stores the original request, so the full payload comes back
		if len(got) == 0 {
			r.Failf("shutdown", "request-not-kept", "a retry wait was interrupted by shutdown but the persistent queue did not keep the request for the next start")
		}
		sd := simkit.Go("sd2", func(t *simkit.Task) { t.Err = exp2.Shutdown(context.Background()) })
		r.Settle()
		_ = sd
	}
	if !shutFired {
		sh := simkit.Go("shutdown", func(t *simkit.Task) { t.Err = exp.Shutdown(context.Background()) })
		for i := 0; i < 20; i++ {
			r.Settle()
			if sh.Done() {
				break
			}
			be.gate.ReleaseAll(nil)
			time.Sleep(time.Minute)
		}
	}
	be.gate.ReleaseAll(nil)
	r.Settle()
	r.Nontrivial = attempt > 1 || shutFired
	r.Virtual = time.Since(begin)
	r.State(fmt.Sprintf("attempts=%d verdict=%s", attempt, verdict), "end")
}

// throttleOf returns the delay the backend asked for in its answer to attempt n (1-based), 0 if none.
func throttleOf(script []string, n int) time.Duration {
	if n < 1 || n > len(script) || !strings.HasPrefix(strings.TrimPrefix(script[n-1], "late:"), "throttle:") {
		return 0
	}
	var v int
	fmt.Sscanf(strings.TrimPrefix(script[n-1], "late:"), "throttle:%d", &v)
	return ms(v)
}

var _ = errors.Is

var HarnessC05 = simkit.Harness{
	Prop: "C05", Name: "exp/c05", Run: runC05, StepTimeout: 10e9,
	Real: []string{"exporterhelper.NewLogs/NewTraces/NewMetrics without queue (and with a persistent queue for the shutdown clause; 1 run in 8 is the full exporter simulation of C03 restricted to persistent queue + retry + optional legacy batcher, for shutdown-interrupted retries of split requests)", "retry sender with the cenkalti/backoff exponential back-off on the virtual clock", "timeout sender", "request OnError narrowing for partial failures", "consumererror permanent classification, experr shutdown classification"},
	Stub: []string{"backend following a tape-drawn outcome script (ok / transient / permanent / throttle d / partial with remaining subset / hang)", "caller with optional deadline", "storage extension (simdisk)"},
	Rule: "one run = one tape-drawn back-off configuration accepted by Validate() (initial, max interval, multiplier, randomization 0 or 0.5, max_elapsed_time, per-attempt timeout), optional caller deadline, one outcome script of 1-7 answers and optionally a shutdown placed at 0/50/99% of the minimum wait after a chosen attempt; the reference model is evaluated attempt by attempt on the virtual clock (exact instants when randomization is 0); distinct = distinct event-log hash; non-trivial = more than one attempt or a shutdown inside a wait",
}
