package verifsim

import (
	"context"
	"errors"
	"fmt"
	"sort"
	"strings"
	"sync"

	"go.opentelemetry.io/collector/component"
	"go.opentelemetry.io/collector/extension/xextension/storage"
)

// Disk is the simulated durable medium: a map that survives incarnations. Every storage.Client call is applied
// atomically (the contract of storage.Client; bbolt-backed file storage is transactional) and numbered.
type Disk struct {
	mu   sync.Mutex
	data map[string][]byte
}

func NewDisk() *Disk { return &Disk{data: map[string][]byte{}} }

func cloneMap(m map[string][]byte) map[string][]byte {
	out := make(map[string][]byte, len(m))
	for k, v := range m {
		out[k] = append([]byte(nil), v...)
	}
	return out
}

func (d *Disk) Snapshot() map[string][]byte {
	d.mu.Lock()
	defer d.mu.Unlock()
	return cloneMap(d.data)
}

func (d *Disk) Restore(m map[string][]byte) {
	d.mu.Lock()
	d.data = cloneMap(m)
	d.mu.Unlock()
}

func (d *Disk) Keys() []string {
	d.mu.Lock()
	defer d.mu.Unlock()
	out := make([]string, 0, len(d.data))
	for k := range d.data {
		out = append(out, k)
	}
	sort.Strings(out)
	return out
}

// Incarnation is one process lifetime's view of the disk. A crash plan (CrashAt, CrashAfter) fences it at its
// k-th storage call: from then on it works on a private fork, so nothing it does is durable or visible.
type Incarnation struct {
	component.StartFunc
	component.ShutdownFunc
	disk *Disk
	N    int // incarnation number

	mu         sync.Mutex
	fenced     bool
	fork       map[string][]byte
	CrashAt    int  // 1-based call index; 0 = never
	CrashAfter bool // fence after applying call CrashAt instead of before
	calls      int
	CtxRefused int // operations refused because the caller's context had ended
	Trace      []string
	OnFence    func(k int)
	closed     int
	// FailAt injects an I/O error at call k (1-based, 0 = none) without applying it.
	FailAt map[int]bool
	// FailIf, when set, decides per call (index, described operations) whether it fails with an I/O error (not applied).
	FailIf func(k int, ops []string) bool
	// Before, when set, is called on the caller's goroutine before the call is counted or applied, with nothing of
	// the simulated disk locked (a place where the harness may park the caller).
	Before func(ops []string)
	// FailClose: closing a client of this incarnation reports an error (the close itself happens)
	FailClose bool
}

func (d *Disk) NewIncarnation(n int) *Incarnation { return &Incarnation{disk: d, N: n} }

func (inc *Incarnation) Fenced() bool {
	inc.mu.Lock()
	defer inc.mu.Unlock()
	return inc.fenced
}

func (inc *Incarnation) Calls() int {
	inc.mu.Lock()
	defer inc.mu.Unlock()
	return inc.calls
}

// Fence kills the incarnation now (between storage calls).
func (inc *Incarnation) Fence() {
	inc.mu.Lock()
	defer inc.mu.Unlock()
	inc.fenceLocked(inc.calls)
}

func (inc *Incarnation) fenceLocked(k int) {
	if inc.fenced {
		return
	}
	inc.fenced = true
	inc.disk.mu.Lock()
	inc.fork = cloneMap(inc.disk.data)
	inc.disk.mu.Unlock()
	inc.Trace = append(inc.Trace, fmt.Sprintf("#%d.%d ---- DEAD ----", inc.N, k))
	if inc.OnFence != nil {
		inc.OnFence(k)
	}
}

func (inc *Incarnation) GetClient(context.Context, component.Kind, component.ID, string) (storage.Client, error) {
	return &diskClient{inc: inc}, nil
}

type diskClient struct{ inc *Incarnation }

func opString(op *storage.Operation) string {
	switch op.Type {
	case storage.Get:
		return "get(" + op.Key + ")"
	case storage.Set:
		return fmt.Sprintf("set(%s,%s)", op.Key, valString(op.Key, op.Value))
	default:
		return "del(" + op.Key + ")"
	}
}

func valString(key string, v []byte) string {
	switch key {
	case "ri", "wi", "si":
		if len(v) >= 8 {
			var x uint64
			for i := 7; i >= 0; i-- {
				x = x<<8 | uint64(v[i])
			}
			return fmt.Sprint(x)
		}
	case "di":
		if len(v) >= 4 {
			n := int(v[0]) | int(v[1])<<8
			var xs []string
			for i := 0; i < n && 4+8*i+8 <= len(v); i++ {
				xs = append(xs, fmt.Sprint(int(v[4+8*i])|int(v[5+8*i])<<8))
			}
			return "[" + strings.Join(xs, ",") + "]"
		}
	}
	return fmt.Sprintf("<%dB>", len(v))
}

func (c *diskClient) apply(ops ...*storage.Operation) error {
	inc := c.inc
	if inc.Before != nil {
		descs := make([]string, len(ops))
		for i, op := range ops {
			descs[i] = opString(op)
		}
		inc.Before(descs)
	}
	inc.mu.Lock()
	defer inc.mu.Unlock()
	inc.calls++
	k := inc.calls
	if !inc.fenced && inc.CrashAt == k && !inc.CrashAfter {
		inc.fenceLocked(k - 1)
	}
	descs := make([]string, len(ops))
	for i, op := range ops {
		descs[i] = opString(op)
	}
	tag := ""
	if inc.fenced {
		tag = " (zombie)"
	}
	inc.Trace = append(inc.Trace, fmt.Sprintf("#%d.%d %s%s", inc.N, k, strings.Join(descs, " "), tag))
	if inc.FailAt[k] && !inc.fenced {
		return fmt.Errorf("simdisk: injected I/O error at call %d", k)
	}
	if inc.FailIf != nil && !inc.fenced && inc.FailIf(k, descs) {
		return fmt.Errorf("simdisk: injected I/O error at call %d", k)
	}
	var m map[string][]byte
	if inc.fenced {
		m = inc.fork
	} else {
		inc.disk.mu.Lock()
		defer inc.disk.mu.Unlock()
		m = inc.disk.data
	}
	for _, op := range ops {
		switch op.Type {
		case storage.Get:
			if v, ok := m[op.Key]; ok {
				// a key that is present reads back non-nil also when its value is empty (nil means "not found", as
				// with the bbolt-backed file storage)
				op.Value = append([]byte{}, v...)
			} else {
				op.Value = nil
			}
		case storage.Set:
			m[op.Key] = append([]byte(nil), op.Value...)
		case storage.Delete:
			delete(m, op.Key)
		}
	}
	if !inc.fenced && inc.CrashAt == k && inc.CrashAfter {
		// release disk lock ordering: fenceLocked takes disk.mu; we hold it via defer -> clone manually
		inc.fenced = true
		inc.fork = cloneMap(m)
		inc.Trace = append(inc.Trace, fmt.Sprintf("#%d.%d ---- DEAD ----", inc.N, k))
		if inc.OnFence != nil {
			inc.OnFence(k)
		}
	}
	return nil
}

// ctxDone: the simulated storage honours its caller's context, as a storage extension doing real I/O does: an
// operation issued with a context that has ended is not performed and returns the context's error.
func (c *diskClient) ctxDone(ctx context.Context) error {
	if err := ctx.Err(); err != nil {
		c.inc.mu.Lock()
		c.inc.CtxRefused++
		c.inc.mu.Unlock()
		return err
	}
	return nil
}

func (c *diskClient) Get(ctx context.Context, key string) ([]byte, error) {
	if err := c.ctxDone(ctx); err != nil {
		return nil, err
	}
	op := storage.GetOperation(key)
	if err := c.apply(op); err != nil {
		return nil, err
	}
	return op.Value, nil
}

func (c *diskClient) Set(ctx context.Context, key string, value []byte) error {
	if err := c.ctxDone(ctx); err != nil {
		return err
	}
	return c.apply(storage.SetOperation(key, value))
}

func (c *diskClient) Delete(ctx context.Context, key string) error {
	if err := c.ctxDone(ctx); err != nil {
		return err
	}
	return c.apply(storage.DeleteOperation(key))
}

func (c *diskClient) Batch(ctx context.Context, ops ...*storage.Operation) error {
	if err := c.ctxDone(ctx); err != nil {
		return err
	}
	return c.apply(ops...)
}

func (c *diskClient) Close(context.Context) error {
	c.inc.mu.Lock()
	c.inc.closed++
	fail := c.inc.FailClose && !c.inc.fenced
	c.inc.mu.Unlock()
	if fail {
		return errors.New("simdisk: injected error from Close")
	}
	return nil
}

// simHost exposes extensions to the component under test.
type simHost struct {
	ext map[component.ID]component.Component
}

func (h *simHost) GetExtensions() map[component.ID]component.Component { return h.ext }
