package verifsim

import (
	"bytes"
	"context"
	"errors"
	"fmt"
	"sort"
	"strconv"
	"strings"
	"sync"
	"sync/atomic"
	"time"

	"go.opentelemetry.io/collector/component"
	"go.opentelemetry.io/collector/component/componenttest"
	"go.opentelemetry.io/collector/config/configretry"
	"go.opentelemetry.io/collector/consumer/consumererror"
	"go.opentelemetry.io/collector/exporter"
	"go.opentelemetry.io/collector/exporter/exporterhelper"
	"go.opentelemetry.io/collector/pdata/plog"
	"verif.local/simkit"
)

// ---- C01: persistent queue durability under process death at every storage-operation boundary ---------------

type crashPoint struct {
	Inc   int  `json:"incarnation"`
	K     int  `json:"call"`
	After bool `json:"after"`
}

type c01Cfg struct {
	Mode      string       `json:"mode"` // "plan" (crash plan read from the tape) or "enumerate"
	Cap       int          `json:"capacity"`
	Consumers int          `json:"consumers"`
	Retry     bool         `json:"retry"`
	Batcher   bool         `json:"legacy_batcher"`
	BMin      int64        `json:"batch_min_size,omitempty"`
	BMax      int64        `json:"batch_max_size,omitempty"`
	Script    []string     `json:"script"`
	Plan      []crashPoint `json:"plan,omitempty"`
	// StartIndex: read = write index found on disk by the first incarnation (an empty queue that has been in use): the
	// item indexes of the run then lie around a power of two instead of starting at 0
	StartIndex uint64 `json:"start_index,omitempty"`
	// Empties: every third request is an empty payload - a request all the same, stored with a zero-length encoding and
	// handed to the export function like any other (no batcher in such runs: a merge makes empty requests vanish)
	Empties bool `json:"every_third_request_empty,omitempty"`
}

var (
	errTransient = errors.New("sim backend: transient failure")
	errPermanent = consumererror.NewPermanent(errors.New("sim backend: permanent failure"))
	errZombie    = errors.New("sim: answer discarded, incarnation is dead")
)

const c01Backoff = 2 * time.Second

type c01Inc struct {
	ord      int
	inc      *Incarnation
	exp      exporter.Logs
	gate     *simkit.Gate
	shutdown *simkit.Task
	started  bool
	// yg: goroutines parked at a storage operation they issue while the queue's mutex is free (none on a tree that
	// does all its storage I/O inside the queue's critical sections)
	yg     *simkit.Gate
	ygSeq  int
	noPark atomic.Bool // a call made on the scheduler's own goroutine is in progress
	probe  *lockProbe
}

type c01Life struct {
	r        *simkit.Run
	cfg      c01Cfg
	plan     map[int]crashPoint
	disk     *Disk
	incs     []*c01Inc
	cur      *c01Inc
	nextID   int
	payload  map[int][]byte
	acked    map[int]bool
	final    map[int]bool
	handed   map[int]int
	recFinal map[string]bool // "req/idx" -> a hand-off holding the record completed with a final outcome
	recOf    map[int]int     // request -> number of records
	// empty requests cannot be told apart: at least as many empty hand-offs must complete with a final outcome as
	// empty requests were acknowledged
	emptyFinal int
	callSeq    map[string]int
	inCall     map[string][]string // gate id -> records
	trace      []string
	viol       []simkit.Violation
	crashes    []string // shape of each crash site that fired
	lifeLog    []string
	mu         sync.Mutex
}

func (l *c01Life) logf(f string, a ...any) { l.lifeLog = append(l.lifeLog, fmt.Sprintf(f, a...)) }

func (l *c01Life) failf(class, locus, f string, a ...any) {
	l.viol = append(l.viol, simkit.Violation{Property: "C01", Class: class, Locus: locus, Msg: fmt.Sprintf(f, a...)})
}

func mkLogs(id int) (plog.Logs, []byte) {
	ld := plog.NewLogs()
	rl := ld.ResourceLogs().AppendEmpty()
	rl.Resource().Attributes().PutStr("service.name", "sim")
	sl := rl.ScopeLogs().AppendEmpty()
	sl.Scope().SetName("c01")
	n := 1 + id%2
	for i := 0; i < n; i++ {
		lr := sl.LogRecords().AppendEmpty()
		lr.Body().SetStr(fmt.Sprintf("req-%d/%d", id, i))
		lr.Attributes().PutInt("req", int64(id))
	}
	b, err := (&plog.ProtoMarshaler{}).MarshalLogs(ld)
	if err != nil {
		panic(err)
	}
	return ld, b
}

func reqIDOf(ld plog.Logs) int {
	if ld.ResourceLogs().Len() == 0 || ld.ResourceLogs().At(0).ScopeLogs().Len() == 0 || ld.ResourceLogs().At(0).ScopeLogs().At(0).LogRecords().Len() == 0 {
		return -1
	}
	v, ok := ld.ResourceLogs().At(0).ScopeLogs().At(0).LogRecords().At(0).Attributes().Get("req")
	if !ok {
		return -1
	}
	return int(v.Int())
}

func (l *c01Life) startInc() {
	for guard := 0; guard < 16; guard++ {
		ord := len(l.incs) + 1
		inc := l.disk.NewIncarnation(ord)
		if cp, ok := l.plan[ord]; ok {
			inc.CrashAt, inc.CrashAfter = cp.K, cp.After
		}
		ci := &c01Inc{ord: ord, inc: inc, gate: simkit.NewGate(), yg: simkit.NewGate()}
		ci.noPark.Store(true)
		inc.Before = func(ops []string) {
			if ci.noPark.Load() || !ci.probe.free() || inc.Fenced() {
				return
			}
			l.mu.Lock()
			ci.ygSeq++
			n := ci.ygSeq
			l.mu.Unlock()
			l.r.Count("fault.parked_at_storage_call_outside_queue_lock")
			ci.yg.Park(fmt.Sprintf("yield:storage#%d:%s", n, shapeOf("#0.0 "+strings.Join(ops, " "))))
		}
		l.incs = append(l.incs, ci)
		l.cur = ci
		pusher := func(ctx context.Context, ld plog.Logs) error {
			if inc.Fenced() {
				return errZombie
			}
			recs := recordsOf(ld)
			l.mu.Lock()
			if len(recs) == 0 && l.cfg.Empties {
				if b, _ := (&plog.ProtoMarshaler{}).MarshalLogs(ld); len(b) != 0 {
					l.failf("garbage", "payload", "incarnation %d handed over a payload without records that is not the empty request (%d bytes)", ord, len(b))
				}
				l.callSeq["0/e"]++
				gid := fmt.Sprintf("exp:0/e#%d", l.callSeq["0/e"])
				l.inCall[fmt.Sprintf("%d|%s", ord, gid)] = []string{"<empty>"}
				l.mu.Unlock()
				v, ok := ci.gate.ParkCtx(gid, ctx.Done())
				if !ok {
					return ctx.Err()
				}
				if v == nil {
					return nil
				}
				return v.(error)
			}
			if len(recs) == 0 {
				l.failf("garbage", "payload", "incarnation %d handed over a payload without records", ord)
			}
			for _, rc := range recs {
				var rq, ix int
				if _, err := fmt.Sscanf(rc, "%d/%d", &rq, &ix); err != nil || ix >= l.recOf[rq] {
					l.failf("garbage", "payload", "incarnation %d handed over a record that was never submitted (%q)", ord, rc)
				}
				l.handed[rq]++
			}
			if !l.cfg.Batcher {
				// without batching a hand-off is exactly one submitted request, byte for byte
				id := reqIDOf(ld)
				b, _ := (&plog.ProtoMarshaler{}).MarshalLogs(ld)
				if want, known := l.payload[id]; !known || !bytes.Equal(b, want) {
					l.failf("garbage", "payload", "incarnation %d handed over a payload that was never submitted (id %d, %d bytes)", ord, id, len(b))
				}
			}
			sort.Strings(recs)
			key := recs[0]
			l.callSeq[key]++
			gid := fmt.Sprintf("exp:%s#%d", key, l.callSeq[key])
			l.inCall[fmt.Sprintf("%d|%s", ord, gid)] = recs
			l.mu.Unlock()
			v, ok := ci.gate.ParkCtx(gid, ctx.Done())
			if !ok {
				return ctx.Err()
			}
			if v == nil {
				return nil
			}
			return v.(error)
		}
		sid := storageID
		qcfg := exporterhelper.NewDefaultQueueConfig()
		qcfg.QueueSize = int64(l.cfg.Cap)
		qcfg.NumConsumers = l.cfg.Consumers
		qcfg.StorageID = &sid
		rcfg := configretry.NewDefaultBackOffConfig()
		rcfg.Enabled = l.cfg.Retry
		rcfg.InitialInterval = c01Backoff
		rcfg.MaxInterval = c01Backoff
		rcfg.RandomizationFactor = 0
		rcfg.Multiplier = 1
		rcfg.MaxElapsedTime = 0
		set := exporter.Settings{ID: component.MustNewID("simexp"), TelemetrySettings: componenttest.NewNopTelemetrySettings(), BuildInfo: component.NewDefaultBuildInfo()}
		opts := []exporterhelper.Option{exporterhelper.WithQueue(qcfg), exporterhelper.WithRetry(rcfg), exporterhelper.WithTimeout(exporterhelper.TimeoutConfig{Timeout: 0})}
		if l.cfg.Batcher {
			bc := exporterhelper.NewDefaultBatcherConfig()
			bc.FlushTimeout = time.Second
			bc.MinSize, bc.MaxSize = l.cfg.BMin, l.cfg.BMax
			if err := bc.Validate(); err != nil {
				panic("harness: invalid batcher config: " + err.Error())
			}
			opts = append(opts, exporterhelper.WithBatcher(bc))
		}
		exp, err := exporterhelper.NewLogs(context.Background(), set, struct{}{}, pusher, opts...)
		if err != nil {
			panic(err)
		}
		ci.exp = exp
		ci.probe = findLockProbe(exp, "persistentQueue")
		if ci.probe != nil {
			l.r.Count("probe.queue_lock_probe_attached")
		}
		host := &simHost{ext: map[component.ID]component.Component{storageID: inc}}
		l.logf("-- incarnation %d starts (disk keys %v)", ord, l.disk.Keys())
		if err := exp.Start(context.Background(), host); err != nil {
			panic("exporter start: " + err.Error())
		}
		ci.started = true
		l.r.Settle()
		ci.noPark.Store(false)
		if !inc.Fenced() {
			return
		}
		l.bury(ci)
	}
	panic("harness: too many incarnations")
}

// bury cleans up a fenced incarnation: everything it does from now on is invisible (private disk fork, discarded
// exports); it is shut down so that its goroutines end.
func (l *c01Life) bury(ci *c01Inc) {
	tr := ci.inc.Trace
	site := "?"
	for i, t := range tr {
		if strings.Contains(t, "---- DEAD ----") {
			before, after := "(start)", "(nothing)"
			if i > 0 {
				before = shapeOf(tr[i-1])
			}
			if i+1 < len(tr) {
				after = shapeOf(tr[i+1])
			}
			site = "after " + before + " / before " + after
		}
	}
	l.crashes = append(l.crashes, site)
	l.logf("-- incarnation %d DIED: %s", ci.ord, site)
	l.r.Count("fault.crash")
	if ci.ord > 1 && l.deadBeforeReady(ci) {
		l.r.Count("probe.crash_during_recovery")
	}
	if len(ci.gate.Parked()) >= 2 {
		l.r.Count("probe.two_in_flight_at_crash")
	}
	for i := 0; i < 100; i++ {
		ci.gate.ReleaseAll(errZombie)
		ci.yg.ReleaseAll(nil)
		if ci.shutdown == nil {
			ci.shutdown = simkit.Go("zombie-shutdown", func(t *simkit.Task) { t.Err = ci.exp.Shutdown(context.Background()) })
		}
		l.r.Settle()
		if ci.shutdown.Done() && len(ci.gate.Parked()) == 0 && len(ci.yg.Parked()) == 0 {
			return
		}
		l.r.Advance(c01Backoff)
	}
	panic("harness: zombie incarnation did not shut down")
}

func (l *c01Life) deadBeforeReady(ci *c01Inc) bool {
	// died within the calls made by Start (recovery): no event of the script ran in it
	for _, t := range l.lifeLog {
		if strings.HasPrefix(t, fmt.Sprintf("op@%d ", ci.ord)) {
			return false
		}
	}
	return true
}

// shapeOf abstracts one storage-trace line to the kinds of its operations: "set(wi)+set(item)".
func shapeOf(line string) string {
	i := strings.Index(line, " ")
	if i < 0 {
		return line
	}
	rest := strings.TrimSuffix(line[i+1:], " (zombie)")
	var out []string
	for _, op := range strings.Fields(rest) {
		kind := op
		if j := strings.Index(op, "("); j > 0 {
			key := op[j+1:]
			if k := strings.IndexAny(key, ",)"); k >= 0 {
				key = key[:k]
			}
			if _, err := strconv.ParseUint(key, 10, 64); err == nil {
				key = "item"
			}
			kind = op[:j] + "(" + key + ")"
		}
		if len(out) > 0 && out[len(out)-1] == kind {
			continue
		}
		out = append(out, kind)
	}
	return strings.Join(out, "+")
}

func (l *c01Life) checkCrash() {
	if l.cur.inc.Fenced() {
		l.bury(l.cur)
		l.startInc()
	}
}

func (l *c01Life) answerOldest(outcome error) bool {
	ids := l.cur.gate.Parked()
	if len(ids) == 0 {
		return false
	}
	// oldest = smallest request number (the ids sort as text: 1, 10, 11, 2, ...)
	id, best := ids[0], 1<<62
	for _, x := range ids {
		var n int
		if k, _ := fmt.Sscanf(x, "exp:%d", &n); k == 1 && n < best {
			id, best = x, n
		}
	}
	if !l.cur.inc.Fenced() {
		// the backend has answered a live incarnation: from now on the data is the backend's
		if outcome == nil || consumererror.IsPermanent(outcome) || !l.cfg.Retry {
			l.mu.Lock()
			for _, rc := range l.inCall[fmt.Sprintf("%d|%s", l.cur.ord, id)] {
				if rc == "<empty>" {
					l.emptyFinal++
					continue
				}
				l.recFinal[rc] = true
			}
			l.mu.Unlock()
		}
	}
	l.logf("op@%d answer %s -> %s", l.cur.ord, id, simkit.ShortErr(outcome))
	l.cur.gate.Release(id, outcome)
	l.r.Settle()
	return true
}

// releaseParked lets the oldest goroutine parked at a storage call continue (false: none is parked).
func (l *c01Life) releaseParked() bool {
	ids := l.cur.yg.Parked()
	if len(ids) == 0 {
		return false
	}
	id, best := ids[0], 1<<62
	for _, x := range ids {
		var n int
		if k, _ := fmt.Sscanf(x, "yield:storage#%d:", &n); k == 1 && n < best {
			id, best = x, n
		}
	}
	l.logf("op@%d release %s", l.cur.ord, id)
	l.cur.yg.Release(id, nil)
	l.r.Settle()
	return true
}

func outcomeOf(c byte) error {
	switch c {
	case 'p':
		return errPermanent
	case 't':
		return errTransient
	case 'h':
		// the backend asks for a pause longer than the back-off interval (a retryable failure like any other)
		return exporterhelper.NewThrottleRetry(errTransient, 3*c01Backoff)
	}
	return nil
}

func (l *c01Life) gracefulStop(inflight byte) {
	ci := l.cur
	ci.shutdown = simkit.Go("shutdown", func(t *simkit.Task) { t.Err = ci.exp.Shutdown(context.Background()) })
	for i := 0; i < 100; i++ {
		l.r.Settle()
		if ci.inc.Fenced() {
			return
		}
		if ci.shutdown.Done() {
			return
		}
		if l.releaseParked() {
			continue
		}
		if !l.answerOldest(outcomeOf(inflight)) {
			l.r.Advance(c01Backoff)
		}
	}
	l.failf("liveness", "graceful-shutdown", "graceful shutdown of incarnation %d did not return", ci.ord)
}

func (l *c01Life) run() {
	l.startInc()
	for _, op := range l.cfg.Script {
		l.checkCrash()
		switch op[0] {
		case 'E':
			l.r.Events++
			l.nextID++
			id := l.nextID
			ld, b := mkLogs(id)
			if l.cfg.Empties && id%3 == 0 {
				ld, b = plog.NewLogs(), nil
				l.r.Count("probe.empty_request_enqueued")
			}
			l.payload[id] = b
			l.recOf[id] = ld.LogRecordCount()
			l.cur.noPark.Store(true)
			err := l.cur.exp.ConsumeLogs(context.Background(), ld)
			l.cur.noPark.Store(false)
			ack := err == nil && !l.cur.inc.Fenced()
			if ack {
				l.acked[id] = true
			}
			l.logf("op@%d enqueue %d -> %s acked=%v", l.cur.ord, id, simkit.ShortErr(err), ack)
			l.r.Settle()
		case 'A':
			l.answerOldest(outcomeOf(op[1]))
		case 'Y':
			l.releaseParked()
		case 'T':
			l.logf("op@%d advance %v", l.cur.ord, c01Backoff)
			l.r.Advance(c01Backoff)
		case 'R':
			l.logf("op@%d graceful restart (in-flight answered %c)", l.cur.ord, op[1])
			l.r.Count("fault.graceful_restart")
			l.gracefulStop(op[1])
			if !l.cur.inc.Fenced() {
				l.startInc()
			}
		}
	}
	// ---- drain: faults stop, backend always succeeds
	idle := 0
	for i := 0; i < 400; i++ {
		l.checkCrash()
		l.r.Settle()
		if l.cur.inc.Fenced() {
			continue
		}
		if l.releaseParked() {
			idle = 0
			continue
		}
		if l.answerOldest(nil) {
			idle = 0
			continue
		}
		if idle >= 2 {
			break
		}
		idle++
		l.r.Advance(c01Backoff + time.Second)
	}
	l.checkCrash()
	l.gracefulStop('s')
	if l.cur.inc.Fenced() {
		// the plan killed the drain incarnation during its shutdown: run one more, crash-free by construction
		l.bury(l.cur)
		l.startInc()
		for l.answerOldest(nil) {
		}
		l.gracefulStop('s')
	}
	for _, ci := range l.incs {
		l.trace = append(l.trace, ci.inc.Trace...)
	}
	// ---- oracle
	locus := "no-crash"
	if len(l.crashes) > 0 {
		locus = "last death " + l.crashes[len(l.crashes)-1]
	}
	ids := make([]int, 0, len(l.acked))
	for id := range l.acked {
		ids = append(ids, id)
	}
	sort.Ints(ids)
	for _, id := range ids {
		done := true
		for ix := 0; ix < l.recOf[id]; ix++ {
			if !l.recFinal[fmt.Sprintf("%d/%d", id, ix)] {
				done = false
			}
		}
		l.final[id] = done
		if !l.final[id] {
			l.failf("loss", locus, "request %d was accepted (enqueue returned nil to a live process) but no hand-off of it ever completed with a final outcome; hand-offs started: %d; crash sites: %v", id, l.handed[id], l.crashes)
		}
	}
	emptyAcked := 0
	for _, id := range ids {
		if l.recOf[id] == 0 {
			emptyAcked++
		}
	}
	if l.emptyFinal < emptyAcked {
		l.failf("loss", locus+"/empty-request", "%d empty requests were accepted (enqueue returned nil to a live process) but only %d hand-offs of an empty request completed with a final outcome; crash sites: %v", emptyAcked, l.emptyFinal, l.crashes)
	}
	left := 0
	for _, k := range l.disk.Keys() {
		if _, err := strconv.ParseUint(k, 10, 64); err == nil {
			left++
		}
	}
	if left > 0 {
		l.r.Count("probe.orphan_items_left_on_disk")
	}
}

func runLife(r *simkit.Run, cfg c01Cfg, plan []crashPoint) *c01Life {
	l := &c01Life{r: r, cfg: cfg, plan: map[int]crashPoint{}, disk: NewDisk(), payload: map[int][]byte{}, acked: map[int]bool{},
		final: map[int]bool{}, handed: map[int]int{}, recFinal: map[string]bool{}, recOf: map[int]int{}, callSeq: map[string]int{}, inCall: map[string][]string{}}
	for _, cp := range plan {
		l.plan[cp.Inc] = cp
	}
	if cfg.StartIndex > 0 {
		le := make([]byte, 8)
		for i := 0; i < 8; i++ {
			le[i] = byte(cfg.StartIndex >> (8 * uint(i)))
		}
		l.disk.Restore(map[string][]byte{"ri": le, "wi": append([]byte(nil), le...)})
	}
	l.run()
	return l
}

func c01Config(tp *simkit.Tape) c01Cfg {
	c := c01Cfg{}
	if tp.Weighted(1, 3) == 1 {
		c.Mode = "enumerate"
	} else {
		c.Mode = "plan"
	}
	c.Cap = tp.Range(2, 6)
	c.Consumers = tp.Range(1, 3)
	c.Retry = tp.Chance(1, 3)
	// the legacy batcher is the one batching option that combines with a persistent queue: hand-offs then carry
	// records of several requests and a request may be split over several hand-offs
	c.Batcher = tp.Chance(1, 3)
	if c.Batcher {
		c.BMax = int64(tp.Range(1, 3))
		c.BMin = int64(tp.Range(0, int(c.BMax)))
		if tp.Chance(1, 2) {
			c.Retry = true // parts of one request that retry independently are where a request's outcome is combined
		}
	}
	c.Empties = !c.Batcher && tp.Chance(1, 5)
	c.StartIndex = []uint64{0, 0, 254, 65534, 4294967294, 1<<53 - 2, 1<<62 - 1}[tp.Draw(7)]
	n := tp.Range(3, 10)
	ops := []string{"E", "Ao", "Ap", "At", "T", "Ro", "Rt", "Y", "Ah"}
	if tp.Chance(1, 6) {
		// wide: many consumers, all busy - the list of dispatched items gets long and completions come out of order
		c.Mode = "plan"
		c.Consumers = tp.Range(9, 12)
		c.Cap = 16
		c.Batcher, c.BMin, c.BMax = false, 0, 0
		c.Empties = false
		for i := 0; i < c.Consumers+1; i++ {
			c.Script = append(c.Script, "E")
		}
		n = tp.Range(2, 7)
		for i := 0; i < n; i++ {
			c.Script = append(c.Script, ops[tp.Weighted(1, 6, 1, 1, 1, 1, 1, 1, 1)])
		}
		return c
	}
	for i := 0; i < n; i++ {
		op := ops[tp.Weighted(6, 3, 1, 2, 1, 1, 1, 1, 1)]
		c.Script = append(c.Script, op)
	}
	return c
}

func planFromTape(tp *simkit.Tape) []crashPoint {
	depth := tp.Draw(5)
	var plan []crashPoint
	ord := 0
	for i := 0; i < depth; i++ {
		ord += 1 + tp.Draw(8)
		plan = append(plan, crashPoint{Inc: ord, K: 1 + tp.Draw(200), After: tp.Draw(2) == 1})
	}
	return plan
}

func planToTape(plan []crashPoint) []int {
	out := []int{len(plan)}
	ord := 0
	for _, cp := range plan {
		a := 0
		if cp.After {
			a = 1
		}
		out = append(out, cp.Inc-ord-1, cp.K-1, a)
		ord = cp.Inc
	}
	return out
}

func planKey(cfg c01Cfg, plan []crashPoint) string {
	return fmt.Sprintf("%d/%d/%v/%v/%d/%d/%d/%v/%v|%v", cfg.Cap, cfg.Consumers, cfg.Retry, cfg.Batcher, cfg.BMin, cfg.BMax, cfg.StartIndex, cfg.Empties, cfg.Script, plan)
}

func runC01(r *simkit.Run) {
	tp := r.Tape
	cfg := c01Config(tp)
	scriptVals := append([]int(nil), tp.Vals...)
	report := func(l *c01Life, plan []crashPoint) bool {
		r.AddCase(planKey(cfg, plan), len(l.crashes) > 0)
		if len(l.crashes) > 0 {
			r.Nontrivial = true
		}
		if len(l.viol) == 0 {
			return false
		}
		for _, x := range l.lifeLog {
			r.Logf("%s", x)
		}
		r.Logf("storage trace:")
		for _, x := range l.trace {
			r.Logf("  %s", x)
		}
		for _, v := range l.viol {
			r.Failf(v.Class, v.Locus, "%s", v.Msg)
		}
		return true
	}
	if cfg.Mode == "plan" {
		cfg.Plan = planFromTape(tp)
		r.Sample = cfg
		l := runLife(r, cfg, cfg.Plan)
		if !report(l, cfg.Plan) {
			for _, x := range l.lifeLog {
				r.Logf("%s", x)
			}
		}
		return
	}
	r.Sample = cfg
	budget := 2500
	maxDepth := 2
	if simkit.Tier() == "thorough" {
		budget = 40000
		if len(cfg.Script) <= 6 {
			maxDepth = 3
		}
	}
	found := false
	var rec func(plan []crashPoint, base *c01Life, depth int)
	rec = func(plan []crashPoint, base *c01Life, depth int) {
		lastOrd := 0
		if len(plan) > 0 {
			lastOrd = plan[len(plan)-1].Inc
		}
		for _, ci := range base.incs {
			if ci.ord <= lastOrd {
				continue
			}
			calls := ci.inc.Calls()
			for k := 1; k <= calls; k++ {
				for _, after := range []bool{false, true} {
					if found {
						return
					}
					if budget <= 0 {
						r.Count("probe.enumeration_truncated")
						return
					}
					budget--
					p2 := append(append([]crashPoint(nil), plan...), crashPoint{Inc: ci.ord, K: k, After: after})
					l := runLife(r, cfg, p2)
					if report(l, p2) {
						found = true
						cfgp := cfg
						cfgp.Mode = "plan"
						cfgp.Plan = p2
						r.Sample = cfgp
						ot := append([]int(nil), scriptVals...)
						ot[0] = 0 // mode "plan"
						r.OverrideTape = append(ot, planToTape(p2)...)
						return
					}
					if depth+1 < maxDepth {
						rec(p2, l, depth+1)
					}
				}
			}
		}
	}
	base := runLife(r, cfg, nil)
	if report(base, nil) {
		return
	}
	r.Logf("script %v: crash-free run made %d incarnations", cfg.Script, len(base.incs))
	rec(nil, base, 0)
	r.Logf("enumerated %d lifetimes (max depth %d)", r.Cases, maxDepth)
}

var HarnessC01 = simkit.Harness{
	Prop: "C01", Name: "exp/c01", Run: runC01, StepTimeout: 20e9,
	Real: []string{"exporterhelper.NewLogs exporter (real logs request type and protobuf encoding)", "queue sender, obsreport sender, retry sender", "queuebatch persistent queue + async consumers"},
	Stub: []string{"storage extension: simdisk (durable map, atomic numbered calls, crash fence)", "backend (push function parks until the script answers)"},
	Rule: "one run = one tape-drawn script of enqueue / answer(ok|permanent|transient|throttle for longer than the back-off) / advance / graceful-restart operations (in 1 run in 5 without a batcher every third request is an empty payload, stored with a zero-length encoding); mode enumerate: the crash-free lifetime, then EVERY (storage call k, before|after) of every incarnation as a process death, and for each of those every death point of the lifetimes that follow (depth 2; depth 3 in the thorough tier for scripts <= 6 ops), each lifetime ending with a fault-free draining incarnation; mode plan: one crash plan of depth <= 4 read from the tape. evaluations = lifetimes; distinct = distinct (config, script, crash plan); non-trivial = at least one death actually fired",
}

// recordsOf lists the "req/idx" identities of the log records of a payload (from the record bodies "req-<id>/<idx>").
func recordsOf(ld plog.Logs) []string {
	var out []string
	for i := 0; i < ld.ResourceLogs().Len(); i++ {
		rl := ld.ResourceLogs().At(i)
		for j := 0; j < rl.ScopeLogs().Len(); j++ {
			lrs := rl.ScopeLogs().At(j).LogRecords()
			for k := 0; k < lrs.Len(); k++ {
				out = append(out, strings.TrimPrefix(lrs.At(k).Body().AsString(), "req-"))
			}
		}
	}
	return out
}
