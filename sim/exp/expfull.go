package verifsim

import (
	"context"
	"errors"
	"fmt"
	"sort"
	"strings"
	"sync/atomic"
	"time"

	"go.opentelemetry.io/otel/sdk/metric/metricdata"

	"go.opentelemetry.io/collector/component"
	"go.opentelemetry.io/collector/component/componenttest"
	"go.opentelemetry.io/collector/config/configretry"
	"go.opentelemetry.io/collector/consumer/consumererror"
	"go.opentelemetry.io/collector/exporter"
	"go.opentelemetry.io/collector/exporter/exporterhelper"
	"go.opentelemetry.io/collector/exporter/exporterhelper/internal/queuebatch"
	"verif.local/simkit"
	"verif.local/simkit/gen"
)

// The "full exporter" simulation serves C03 (graceful shutdown) and C19a (exporter counter balance): the whole
// exporter-helper stack (queue memory|persistent, batcher none|queue|legacy, obsreport, retry, timeout) with a
// simulated backend, virtual clock and a shutdown event that may fire at any step.

type fullCfg struct {
	Signal     string `json:"signal"`
	Persistent bool   `json:"persistent"`
	Batch      string `json:"batch"` // none | queue | legacy
	Sizer      string `json:"sizer"`
	Cap        int64  `json:"queue_size"`
	Consumers  int    `json:"consumers"`
	Retry      bool   `json:"retry"`
	TimeoutS   int    `json:"timeout_s"`
	Min        int64  `json:"min_size"`
	Max        int64  `json:"max_size"`
	FlushS     int    `json:"flush_timeout_s"`
	Steps      int    `json:"steps"`
	Faults     bool   `json:"backend_faults"`
	Partial    bool   `json:"partial_failures"`
	Wait       bool   `json:"wait_for_result"`
	NoQueue    bool   `json:"no_queue"`
	Shape      string `json:"error_shape"` // plain | wrapped (%w) | joined with a plain error
	// Block: block_on_overflow; producers then wait for space instead of being refused, also while Shutdown drains
	Block bool `json:"block_on_overflow,omitempty"`
	// ZeroBackoff: retry_on_failure::initial_interval 0 - a failed attempt is retried at once (unless shutting down)
	ZeroBackoff bool `json:"zero_backoff,omitempty"`
	// CloseFails: closing the storage client reports an error (the queue's Shutdown then returns one)
	CloseFails bool `json:"storage_close_fails,omitempty"`
}

type fullProdKey struct{}

type fullReq struct {
	n              int
	items          map[string]string
	accepted       bool // Consume returned nil
	refused        bool // Consume returned an error
	err            error
	beforeShutdown bool // Consume returned before the shutdown event fired
	task           *simkit.Task
	cancel         context.CancelFunc
	// yieldWoken: when this request's producer is woken from the wait for space, it parks before re-taking the queue
	// mutex and continues as an event of its own (so the consumer that woke it always runs on first; the release may
	// be the very next event)
	yieldWoken bool
}

type fullSim struct {
	shutCtxDone    bool // Shutdown is called with a context that is already done
	r              *simkit.Run
	prop           string
	cfg            fullCfg
	ad             *sigAdapter
	be             *backend
	yg             *simkit.Gate
	exp            simExporter
	tel            *componenttest.Telemetry
	disk           *Disk
	ids            *gen.IDs
	reqs           []*fullReq
	shut           *simkit.Task
	shutFiredAt    int // event index, 0 = not yet
	shutReturnedAt int
	callsAtReturn  int
	anyFailure     bool
	given          int64
}

func fullConfig(tp *simkit.Tape, prop string) fullCfg {
	c := fullCfg{}
	c.Signal = adapters[tp.Draw(3)].name
	if prop == "C03" && tp.Chance(1, 8) {
		// profiles go through the same helper (xexporterhelper) with their own request type and queue encoding; they
		// have no partial-failure error and no item counters, so C19 leaves them out
		c.Signal = profilesAdapter.name
	}
	c.Persistent = tp.Chance(1, 3)
	if prop == "C05" {
		// C05's supplement: only the clause "a retry wait interrupted by shutdown ends with a shutdown-classified error
		// so that a persistent queue keeps the request", with a request that may be split into parts that retry
		// independently (C05's own harness follows one attempt chain)
		c.Persistent = true
	}
	if c.Persistent {
		// sending_queue::batch needs an items/bytes sizer and the persistent queue a requests sizer, but the legacy
		// WithBatcher option combines with a persistent queue
		c.Batch = []string{"none", "legacy"}[tp.Weighted(2, 1)]
		c.Sizer = "requests"
	} else {
		c.Batch = []string{"none", "queue", "legacy"}[tp.Weighted(2, 2, 1)]
		if c.Batch == "none" {
			c.Sizer = []string{"requests", "items"}[tp.Draw(2)]
		} else {
			c.Sizer = "items"
			if c.Batch == "queue" && tp.Chance(1, 3) {
				c.Sizer = "bytes"
			}
		}
	}
	switch c.Sizer {
	case "requests":
		c.Cap = int64(tp.Range(1, 6))
	case "bytes":
		c.Cap = int64(tp.Range(400, 3000))
	default:
		c.Cap = int64(tp.Range(6, 40))
	}
	c.Consumers = tp.Range(1, 3)
	c.Retry = tp.Chance(1, 2) || prop == "C05"
	c.TimeoutS = []int{0, 5}[tp.Draw(2)]
	if c.Batch != "none" {
		c.Max = int64(tp.Draw(9))
		hi := c.Max
		if hi == 0 {
			hi = 10
		}
		if c.Sizer == "bytes" {
			c.Max = int64([]int{0, tp.Range(120, 700)}[tp.Weighted(1, 3)])
			hi = c.Max
			if hi == 0 {
				hi = 600
			}
		}
		c.Min = int64(tp.Draw(int(hi) + 1))
		c.FlushS = tp.Range(1, 8)
	}
	c.Steps = tp.Range(6, 40)
	c.Faults = tp.Chance(2, 3) || prop == "C05"
	c.Partial = c.Faults && c.Signal != "profiles" && tp.Chance(1, 2)
	c.Wait = !c.Persistent && tp.Chance(1, 4)
	c.Shape = []string{"plain", "wrapped", "joined"}[tp.Weighted(2, 1, 1)]
	if !c.Persistent && c.Batch != "queue" && prop != "C05" && tp.Chance(1, 6) {
		// sending_queue disabled: the export (with its retries, or the legacy batcher) runs on the caller's goroutine
		c.NoQueue = true
		c.Wait = false
	}
	c.ZeroBackoff = c.Retry && tp.Chance(1, 8)
	c.CloseFails = c.Persistent && tp.Chance(1, 5)
	if !c.NoQueue && prop != "C05" && tp.Chance(1, 4) {
		c.Block = true
		switch c.Sizer {
		case "requests":
			c.Cap = int64(tp.Range(1, 3))
		case "items":
			c.Cap = int64(tp.Range(6, 14))
		}
	}
	return c
}

const fullBackoff = 3 * time.Second

func (s *fullSim) build(inc *Incarnation) (simExporter, error) {
	cfg := s.cfg
	var opts []exporterhelper.Option
	sizer := exporterhelper.RequestSizerTypeRequests
	if cfg.Sizer == "items" {
		sizer = exporterhelper.RequestSizerTypeItems
	}
	if cfg.Sizer == "bytes" {
		sizer = exporterhelper.RequestSizerTypeBytes
	}
	qc := exporterhelper.NewDefaultQueueConfig()
	qc.Sizer = sizer
	qc.QueueSize = cfg.Cap
	qc.NumConsumers = cfg.Consumers
	qc.WaitForResult = cfg.Wait
	qc.BlockOnOverflow = cfg.Block
	if cfg.Persistent {
		sid := storageID
		qc.StorageID = &sid
	}
	if cfg.Batch == "queue" {
		qc.Batch = &exporterhelper.BatchConfig{FlushTimeout: time.Duration(cfg.FlushS) * time.Second, MinSize: cfg.Min, MaxSize: cfg.Max}
	}
	qc.Enabled = !cfg.NoQueue
	if err := qc.Validate(); err != nil {
		panic("harness: invalid queue config: " + err.Error())
	}
	opts = append(opts, exporterhelper.WithQueue(qc))
	if cfg.Batch == "legacy" {
		bc := exporterhelper.NewDefaultBatcherConfig()
		bc.FlushTimeout = time.Duration(cfg.FlushS) * time.Second
		bc.MinSize, bc.MaxSize = cfg.Min, cfg.Max
		if err := bc.Validate(); err != nil {
			panic("harness: invalid batcher config: " + err.Error())
		}
		opts = append(opts, exporterhelper.WithBatcher(bc))
	}
	rc := configretry.NewDefaultBackOffConfig()
	rc.Enabled = cfg.Retry
	rc.InitialInterval = fullBackoff
	rc.MaxInterval = fullBackoff
	if cfg.ZeroBackoff {
		rc.InitialInterval, rc.MaxInterval = 0, 0
	}
	rc.Multiplier = 1
	rc.RandomizationFactor = 0
	rc.MaxElapsedTime = 20 * time.Second
	if cfg.Persistent {
		rc.MaxElapsedTime = 0 // never gives up: a transient answer is then never a final outcome (as in C01)
	}
	opts = append(opts, exporterhelper.WithRetry(rc), exporterhelper.WithTimeout(exporterhelper.TimeoutConfig{Timeout: time.Duration(cfg.TimeoutS) * time.Second}))
	set := exporter.Settings{ID: component.MustNewID("simexp"), TelemetrySettings: s.tel.NewTelemetrySettings(), BuildInfo: component.NewDefaultBuildInfo()}
	return s.ad.newExp(set, s.be.push, opts...)
}

func runFull(r *simkit.Run, prop string) {
	tp := r.Tape
	cfg := fullConfig(tp, prop)
	r.Sample = cfg
	queuebatch.VerifResetPools()
	start := time.Now()
	s := &fullSim{r: r, prop: prop, cfg: cfg, ad: adapterByName(cfg.Signal), ids: &gen.IDs{Prefix: "i"}, tel: componenttest.NewTelemetry(), disk: NewDisk()}
	s.shutCtxDone = r.Tape.Chance(1, 5)
	s.be = newBackend(s.ad, func() int64 { return time.Now().UnixNano() })
	s.be.evNow = func() int { return r.Events }
	s.yg = simkit.NewGate()
	if cfg.Block {
		queuebatch.VerifYield = func(ctx context.Context, site string) {
			if site != "cond.woken.signal" {
				return
			}
			if q, _ := ctx.Value(fullProdKey{}).(*fullReq); q != nil && q.yieldWoken {
				s.yg.Park(fmt.Sprintf("yield:req%d", q.n))
			}
		}
		defer func() { queuebatch.VerifYield = nil }()
	}
	inc := s.disk.NewIncarnation(1)
	inc.FailClose = cfg.CloseFails
	if cfg.CloseFails {
		r.Count("fault.storage_close_error")
	}
	exp, err := s.build(inc)
	if err != nil {
		panic(err)
	}
	s.exp = exp
	// A storage call issued while the persistent queue's mutex is free is a schedule point (as in C01): the calling
	// goroutine parks and continues as an event of its own. On a tree that does all its storage I/O inside the
	// queue's critical sections none is.
	var noPark atomic.Bool
	noPark.Store(true)
	if cfg.Persistent {
		probe := findLockProbe(exp, "persistentQueue")
		var seq atomic.Int64
		inc.Before = func(ops []string) {
			if noPark.Load() || !probe.free() {
				return
			}
			r.Count("fault.parked_at_storage_call_outside_queue_lock")
			s.yg.Park(fmt.Sprintf("yield:storage#%03d", seq.Add(1)))
		}
	}
	host := &simHost{ext: map[component.ID]component.Component{storageID: inc}}
	sctx, started := simkit.StartContext(tp)
	if err := exp.Start(sctx, host); err != nil {
		panic(err)
	}
	started()
	r.Settle()
	noPark.Store(false)

	for step := 0; step < cfg.Steps && !r.Failed(); step++ {
		var ch []simkit.Choice
		if s.shut == nil {
			ch = append(ch, simkit.Choice{Name: "offer", W: 5, Fire: s.offer})
			ch = append(ch, simkit.Choice{Name: "shutdown", W: 1, Fire: s.fireShutdown})
		}
		s.answerChoices(&ch)
		for _, id := range s.yg.Parked() {
			id := id
			ch = append(ch, simkit.Choice{Name: "release:" + id, W: 2, Fire: func() { s.yg.Release(id, nil) }})
		}
		ch = append(ch, simkit.Choice{Name: "advance:backoff", W: 1, Fire: func() { time.Sleep(fullBackoff) }})
		if cfg.Batch != "none" {
			ch = append(ch, simkit.Choice{Name: "advance:flush", W: 1, Fire: func() { time.Sleep(time.Duration(cfg.FlushS) * time.Second) }})
		}
		if cfg.TimeoutS > 0 && len(s.be.gate.Parked()) > 0 {
			ch = append(ch, simkit.Choice{Name: "advance:export_timeout", W: 1, Fire: func() {
				r.Count("fault.export_timeout")
				time.Sleep(time.Duration(cfg.TimeoutS) * time.Second)
			}})
		}
		ev := r.Pick(ch)
		s.observe(ev)
	}
	if s.shut == nil && !r.Failed() {
		r.Fire("shutdown", s.fireShutdown)
		s.observe("shutdown")
	}
	// quiet phase: the backend answers everything successfully; shutdown must return
	// (without a queue Shutdown does not wait for the callers' own export calls: let those finish too)
	for i := 0; i < 300 && !r.Failed() && (!s.shut.Done() || (cfg.NoQueue && len(s.be.gate.Parked()) > 0)); i++ {
		if id := firstWithPrefix(s.yg.Parked(), "yield:storage"); id != "" {
			r.Fire("quiet-release:"+id, func() { s.yg.Release(id, nil) })
		} else if ids := s.be.gate.Parked(); len(ids) > 0 {
			id := ids[0]
			r.Fire("quiet-ok:"+id, func() { s.be.answer(id, nil) })
		} else {
			r.Fire("quiet-advance", func() { time.Sleep(fullBackoff + time.Second) })
		}
		s.observe("quiet")
	}
	if r.Failed() {
		s.cleanup()
		return
	}
	if !s.shut.Done() {
		r.Failf("liveness", "shutdown-never-returns", "Shutdown did not return although the backend answered every call and time advanced")
		s.cleanup()
		return
	}
	// producers still waiting for space (block_on_overflow): the parked ones continue, then every caller that has not
	// returned gives up (its context ends)
	for _, id := range s.yg.Parked() {
		id := id
		r.Fire("late-release:"+id, func() { s.yg.Release(id, nil) })
		s.observe("late-release")
	}
	for _, q := range s.reqs {
		if !q.task.Done() {
			q := q
			r.Count("probe.producer_still_blocked_after_shutdown")
			r.Fire(fmt.Sprintf("caller-gives-up:req%d", q.n), func() { q.cancel() })
			s.observe("caller-gives-up")
			if !q.task.Done() {
				r.Failf("liveness", "cancelled-caller-not-released", "request %d: the caller's context ended but Consume did not return", q.n)
			}
		}
	}
	// tail: nothing may start after Shutdown returned
	for i := 0; i < 4; i++ {
		r.Fire("tail-advance", func() { time.Sleep(30 * time.Second) })
		s.observe("tail")
	}
	if len(s.be.gate.Parked()) > 0 {
		r.Failf("shutdown", "call-in-flight-after-return", "export calls still in flight after Shutdown returned: %v", s.be.gate.Parked())
		s.cleanup()
		return
	}
	if !r.Failed() {
		s.finalChecks()
	}
	_ = s.tel.Shutdown(context.Background())
	r.Virtual = time.Since(start)
}

func firstWithPrefix(ids []string, prefix string) string {
	for _, id := range ids {
		if strings.HasPrefix(id, prefix) {
			return id
		}
	}
	return ""
}

func (s *fullSim) cleanup() {
	for i := 0; i < 100; i++ {
		s.r.Settle()
		s.yg.ReleaseAll(nil)
		for _, q := range s.reqs {
			q.cancel()
		}
		if s.shut == nil {
			s.shut = simkit.Go("shutdown", func(t *simkit.Task) { t.Err = s.exp.Shutdown(context.Background()) })
		}
		if s.be.gate.ReleaseAll(nil) == 0 && s.shut.Done() {
			break
		}
		time.Sleep(fullBackoff)
	}
}

// dress gives a backend error the run's shape; errors.Is / errors.As see through both.
func (s *fullSim) dress(err error) error {
	switch s.cfg.Shape {
	case "wrapped":
		return fmt.Errorf("backend client: %w", err)
	case "joined":
		return errors.Join(errors.New("sim backend: a second, unclassified complaint"), err)
	}
	return err
}

func (s *fullSim) answerChoices(ch *[]simkit.Choice) {
	r := s.r
	for _, id := range s.be.gate.Parked() {
		id := id
		*ch = append(*ch, simkit.Choice{Name: "ok:" + id, W: 3, Fire: func() { s.be.answer(id, nil) }})
		if !s.cfg.Faults {
			continue
		}
		*ch = append(*ch, simkit.Choice{Name: "transient:" + id, W: 1, Fire: func() {
			r.Count("fault.backend_transient")
			s.anyFailure = true
			s.be.answer(id, s.dress(errTransient))
		}})
		*ch = append(*ch, simkit.Choice{Name: "permanent:" + id, W: 1, Fire: func() {
			r.Count("fault.backend_permanent")
			s.anyFailure = true
			s.be.answer(id, s.dress(errPermanent))
		}})
		if s.cfg.Partial {
			*ch = append(*ch, simkit.Choice{Name: "partial:" + id, W: 1, Fire: func() {
				c := s.be.byGateID(id)
				keys := make([]string, 0, len(c.Items))
				for k := range c.Items {
					keys = append(keys, k)
				}
				sort.Strings(keys)
				keep := map[string]bool{}
				for i, k := range keys {
					if i%2 == 0 {
						keep[k] = true
					}
				}
				c.Kept = keep
				perr, _ := s.ad.partial(c.Payload, keep)
				r.Count("fault.backend_partial")
				s.anyFailure = true
				s.be.answer(id, perr)
			}})
		}
	}
}

func (s *fullSim) offer() {
	sh := gen.Shape{MaxResources: 2, MaxScopes: 2, MaxMetrics: 2, MaxItems: 3}
	if s.cfg.Sizer == "bytes" && s.r.Tape.Chance(1, 8) {
		sh.Oversize = 800 // one item larger than any max_size: it leaves alone
	}
	payload := s.ad.gen(s.r.Tape, s.ids, sh)
	q := &fullReq{n: len(s.reqs) + 1, items: s.ad.items(payload)}
	s.reqs = append(s.reqs, q)
	s.given += int64(len(q.items))
	s.r.Logf("  request %d: %d items", q.n, len(q.items))
	q.yieldWoken = s.cfg.Block // always: left unparked, producer-vs-consumer after a wake-up is a race the tape does not decide
	ctx, cancel := context.WithCancel(context.WithValue(context.Background(), fullProdKey{}, q))
	q.cancel = cancel
	q.task = simkit.Go(fmt.Sprintf("req%d", q.n), func(t *simkit.Task) { t.Err = s.exp.Consume(ctx, payload) })
}

func (s *fullSim) fireShutdown() {
	s.shutFiredAt = s.r.Events
	for _, q := range s.reqs {
		if q.task.Done() && q.task.Err == nil {
			q.beforeShutdown = true
		}
	}
	// the context handed to Shutdown may be over already (a shutdown budget used up by the components stopped before
	// this one): what Shutdown guarantees when it returns does not depend on it
	ctx := context.Background()
	if s.shutCtxDone {
		s.r.Count("fault.shutdown_with_done_context")
		c, cancel := context.WithCancel(ctx)
		cancel()
		ctx = c
	}
	s.shut = simkit.Go("shutdown", func(t *simkit.Task) { t.Err = s.exp.Shutdown(ctx) })
}

func (s *fullSim) observe(ev string) {
	r := s.r
	for _, q := range s.reqs {
		if !q.accepted && !q.refused && q.task.Done() {
			q.err = q.task.Err
			if q.err == nil {
				q.accepted = true
			} else {
				q.refused = true
				r.Count("probe.enqueue_refused")
				if !errors.Is(q.err, exporterhelper.ErrQueueIsFull) {
					r.Logf("  request %d refused: %s", q.n, simkit.ShortErr(q.err))
				}
			}
		}
	}
	calls := s.be.snapshot()
	if s.prop == "C19" && s.shut == nil && !s.cfg.NoQueue {
		// the gauges report the configured capacity and a size within [0, capacity]
		capv, size := s.gaugeVal("otelcol_exporter_queue_capacity"), s.gaugeVal("otelcol_exporter_queue_size")
		if capv != s.cfg.Cap {
			r.Failf("gauge", "capacity", "queue capacity gauge reports %d, configured %d", capv, s.cfg.Cap)
		}
		if size < 0 || size > s.cfg.Cap {
			r.Failf("gauge", "size-out-of-range", "queue size gauge reports %d, capacity %d", size, s.cfg.Cap)
		}
	}
	if s.shut != nil && s.shut.Done() && s.shutReturnedAt == 0 {
		s.shutReturnedAt = r.Events
		s.callsAtReturn = len(calls)
		r.Logf("  Shutdown returned %s; %d export calls so far", simkit.ShortErr(s.shut.Err), len(calls))
		if n := len(s.be.gate.Parked()); n > 0 && !s.cfg.NoQueue {
			r.Failf("shutdown", "returned-with-calls-in-flight", "Shutdown returned while %d export calls had not returned: %v", n, s.be.gate.Parked())
		}
	}
	if s.shutReturnedAt != 0 && len(calls) > s.callsAtReturn {
		r.Failf("shutdown", "export-after-return", "export call %d began after Shutdown had returned", calls[s.callsAtReturn].N)
	}
	if s.shut != nil && !s.shut.Done() {
		r.Count("probe.steps_while_draining")
		r.Nontrivial = true
	}
	if len(s.be.gate.Parked()) > 1 {
		r.Nontrivial = true
	}
	r.State(fmt.Sprintf("inflight=%d shut=%v done=%v calls=%d", len(s.be.gate.Parked()), s.shut != nil, s.shut != nil && s.shut.Done(), bucket(len(calls))), evKind(ev))
}

func (s *fullSim) gaugeVal(name string) int64 {
	m, err := s.tel.GetMetric(name)
	if err != nil {
		return -1 << 40
	}
	if g, ok := m.Data.(metricdata.Gauge[int64]); ok && len(g.DataPoints) == 1 {
		return g.DataPoints[0].Value
	}
	return -1 << 40
}

func (s *fullSim) counter(name string) int64 {
	m, err := s.tel.GetMetric(name)
	if err != nil {
		return 0
	}
	if d, ok := m.Data.(metricdata.Sum[int64]); ok {
		var t int64
		for _, dp := range d.DataPoints {
			t += dp.Value
		}
		return t
	}
	return 0
}

func (s *fullSim) finalChecks() {
	r := s.r
	calls := s.be.snapshot()
	attempts := map[string]int{}
	for _, c := range calls {
		if c.Answered && c.Outcome != nil {
			s.anyFailure = true // includes attempts ended by the per-attempt timeout
		}
		for id := range c.Items {
			attempts[id]++
		}
	}
	sig := map[string]string{"logs": "log_records", "traces": "spans", "metrics": "metric_points"}[s.cfg.Signal]
	sent := s.counter("otelcol_exporter_sent_" + sig)
	failed := s.counter("otelcol_exporter_send_failed_" + sig)
	enq := s.counter("otelcol_exporter_enqueue_failed_" + sig)
	// what is still stored (persistent queue): start a drain incarnation on the same disk and see what it delivers
	stored := map[string]bool{}
	if s.cfg.Persistent {
		be2 := newBackend(s.ad, func() int64 { return time.Now().UnixNano() })
		old := s.be
		s.be = be2
		inc2 := s.disk.NewIncarnation(2)
		exp2, err := s.build(inc2)
		if err != nil {
			panic(err)
		}
		s.be = old
		host := &simHost{ext: map[component.ID]component.Component{storageID: inc2}}
		// exp2 pushes into be2 because build() captured s.be.push at build time
		if err := exp2.Start(context.Background(), host); err != nil {
			panic(err)
		}
		flushWait := time.Duration(s.cfg.FlushS+1) * time.Second
		idle := 0
		for i := 0; i < 400 && idle < 3; i++ {
			r.Settle()
			if ids := be2.gate.Parked(); len(ids) > 0 {
				be2.answer(ids[0], nil)
				idle = 0
				continue
			}
			idle++
			time.Sleep(flushWait) // a partial batch of the drain incarnation leaves by its flush timeout
		}
		sd := simkit.Go("drain-shutdown", func(t *simkit.Task) { t.Err = exp2.Shutdown(context.Background()) })
		for i := 0; i < 200; i++ {
			r.Settle()
			if sd.Done() {
				break
			}
			if ids := be2.gate.Parked(); len(ids) > 0 {
				be2.answer(ids[0], nil)
			} else {
				time.Sleep(flushWait)
			}
		}
		for _, c := range be2.snapshot() {
			for id := range c.Items {
				stored[id] = true
			}
		}
		if !sd.Done() {
			r.Failf("liveness", "drain-incarnation-shutdown", "the drain incarnation did not shut down")
		}
	}
	storedItems := int64(len(stored))
	// which items have finished export with a final outcome (success, permanent failure, or any failure without retry)
	final := map[string]bool{}
	for _, c := range calls {
		if !c.Answered {
			continue
		}
		for id := range c.Items {
			switch {
			case c.Outcome == nil:
				final[id] = true
			case c.Kept != nil:
				if !c.Kept[id] {
					final[id] = true // delivered part of a partial failure
				} else if !s.cfg.Retry {
					final[id] = true
				}
			case consumererror.IsPermanent(c.Outcome) || !s.cfg.Retry:
				final[id] = true
			}
		}
	}

	if s.prop == "C03" || s.prop == "C05" {
		for _, q := range s.reqs {
			if !q.beforeShutdown {
				continue
			}
			for _, id := range sortedKeys(q.items) {
				n := attempts[id]
				switch {
				case s.prop == "C05":
					if !final[id] && !stored[id] {
						r.Failf("shutdown", "request-not-kept/"+s.cfg.Batch, "item %s of request %d had no final outcome when shutdown interrupted its retries (attempts: %d), yet the persistent queue did not keep the request for the next start", id, q.n, n)
					}
				case s.cfg.Persistent:
					if !final[id] && !stored[id] {
						r.Failf("drain", "persistent-lost", "item %s of request %d (accepted before shutdown) has neither finished export with a final outcome (attempts: %d) nor is it still in storage", id, q.n, n)
					}
				default:
					if n == 0 {
						r.Failf("drain", "memory-not-attempted/"+s.cfg.Batch, "item %s of request %d (accepted before shutdown was requested) was never handed to the export function by the time Shutdown returned", id, q.n)
					}
					if n > 1 && !s.anyFailure {
						r.Failf("drain", "attempted-twice-without-failure", "item %s of request %d was exported %d times although no attempt failed", id, q.n, n)
					}
				}
			}
		}
	}
	if s.prop == "C19" {
		// items of requests whose Consume never returned nil/err (none here: non-blocking queue)
		want := s.given - storedItems
		r.Logf("  counters: sent=%d send_failed=%d enqueue_failed=%d; given=%d still_stored=%d", sent, failed, enq, s.given, storedItems)
		// with wait_for_result the producer also sees the outcome of the send: requests that were enqueued, sent and
		// failed come back as errors from Consume
		// the legacy batcher without a queue is a blocking queue with wait_for_result inside
		wait := s.cfg.Wait || (s.cfg.NoQueue && s.cfg.Batch == "legacy")
		var refusedItems, waitSendFailedItems int64
		for _, q := range s.reqs {
			if q.refused && s.cfg.NoQueue && s.cfg.Batch == "none" {
				continue // without a queue every error a caller sees is a send failure, nothing is ever refused
			}
			if q.refused {
				if wait && (errors.Is(q.err, errTransient) || errors.Is(q.err, errPermanent) || errors.Is(q.err, context.DeadlineExceeded)) {
					waitSendFailedItems += int64(len(q.items))
				} else {
					refusedItems += int64(len(q.items))
				}
			}
		}
		if sent+failed+enq != want {
			locus := "exporter-balance"
			if storedItems > 0 {
				locus = "exporter-balance/with-items-still-stored"
			}
			if wait && waitSendFailedItems > 0 && sent+failed+enq == want+waitSendFailedItems {
				locus = "exporter-balance/wait-for-result-send-failure-also-counted-as-enqueue-failed"
			}
			r.Failf("balance", locus, "sent(%d)+send_failed(%d)+enqueue_failed(%d)=%d but given(%d)-still_stored(%d)=%d [%s]", sent, failed, enq, sent+failed+enq, s.given, storedItems, want, s.cfg.Signal)
		}
		if enq != refusedItems && !(wait && enq == refusedItems+waitSendFailedItems) {
			r.Failf("balance", "enqueue-failed", "enqueue_failed counter %d, items of refused requests %d", enq, refusedItems)
		}
	}
}

func runC03(r *simkit.Run) { runFull(r, "C03") }

var fullReal = []string{"exporterhelper.NewLogs/NewTraces/NewMetrics", "base exporter start/shutdown order", "queue sender (memory and persistent queue, async consumers)", "default batcher (queue batch and legacy batcher)", "obsreport sender + obs queue (OTel SDK counters via manual reader)", "retry sender (virtual-clock back-off)", "timeout sender"}
var fullStub = []string{"backend (parks; answered ok / transient / permanent / partial by the scheduler; per-attempt timeout fires on the virtual clock)", "storage extension (simdisk, no crash in this harness)", "producers"}

var HarnessC03 = simkit.Harness{
	Prop: "C03", Name: "exp/c03", Run: runC03, StepTimeout: 10e9, Real: fullReal, Stub: fullStub,
	Rule: "one run = one tape-drawn exporter configuration (signal, memory|persistent queue, batcher none|queue|legacy, sizer, capacity, consumers, block_on_overflow, retry, timeout, min/max/flush) and one schedule of offer / release of a producer parked between its wake-up for space and the queue mutex / backend answer (ok|transient|permanent|partial) / clock advance (back-off, flush, export timeout) events in which the shutdown event is enabled at every step; after Shutdown returns the run continues for a tail period; persistent runs are followed by a drain incarnation on the same disk; distinct = distinct event-log hash; non-trivial = at least one step happened while Shutdown was in progress or >=2 exports were in flight",
}

func runC19(r *simkit.Run) {
	switch r.Tape.Weighted(3, 1, 1, 1) {
	case 0:
		r.Logf("sub-harness exporter")
		runFull(r, "C19")
	case 1:
		r.Logf("sub-harness receiver")
		runC19Receiver(r)
	case 2:
		r.Logf("sub-harness processor")
		runC19Processor(r)
	default:
		r.Logf("sub-harness scraper")
		runC19Scraper(r)
	}
}
