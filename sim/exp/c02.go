package verifsim

import (
	"context"
	"errors"
	"fmt"
	"sort"
	"strconv"
	"strings"
	"sync"
	"sync/atomic"

	"go.opentelemetry.io/otel/sdk/metric/metricdata"

	"go.opentelemetry.io/collector/component"
	"go.opentelemetry.io/collector/component/componenttest"
	"go.opentelemetry.io/collector/exporter/exporterhelper/internal/experr"
	"go.opentelemetry.io/collector/exporter/exporterhelper/internal/queuebatch"
	"go.opentelemetry.io/collector/exporter/exporterhelper/internal/request"
	"go.opentelemetry.io/collector/pipeline"
	"go.opentelemetry.io/collector/pipeline/xpipeline"
	"verif.local/simkit"
)

// ---- fake request with tape-chosen sizes --------------------------------------------------------------------

type simReq struct {
	id    int
	items int
	bytes int
}

func (r *simReq) ItemsCount() int { return r.items }
func (r *simReq) MergeSplit(context.Context, int, request.SizerType, request.Request) ([]request.Request, error) {
	return []request.Request{r}, nil
}

type simReqEncoding struct{}

func (simReqEncoding) Marshal(r request.Request) ([]byte, error) {
	q := r.(*simReq)
	return []byte(fmt.Sprintf("%d,%d,%d", q.id, q.items, q.bytes)), nil
}

func (simReqEncoding) Unmarshal(b []byte) (request.Request, error) {
	parts := strings.Split(string(b), ",")
	if len(parts) != 3 {
		return nil, errors.New("simReq: garbage on disk: " + string(b))
	}
	var v [3]int
	for i, p := range parts {
		x, err := strconv.Atoi(p)
		if err != nil {
			return nil, errors.New("simReq: garbage on disk: " + string(b))
		}
		v[i] = x
	}
	return &simReq{id: v[0], items: v[1], bytes: v[2]}, nil
}

func simSizers() map[request.SizerType]request.Sizer[request.Request] {
	return map[request.SizerType]request.Sizer[request.Request]{
		request.SizerTypeRequests: request.RequestsSizer[request.Request]{},
		request.SizerTypeItems:    request.NewItemsSizer(),
		request.SizerTypeBytes: request.BaseSizer{SizeofFunc: func(r request.Request) int64 {
			return int64(r.(*simReq).bytes)
		}},
	}
}

var storageID = component.MustNewID("simdisk")

// ---- C02 ----------------------------------------------------------------------------------------------------

type prodKeyT struct{}

type c02Req struct {
	id       int
	size     int64
	prod     int
	admitted bool
	handed   int
	dropped  bool   // the persistent queue could not read it back (injected storage fault)
	finished bool   // the completion callback has run (the queue released the request's size)
	answered bool   // the backend has answered (the outcome exists)
	doneAt   string // lock-yield id at which the completing consumer is parked inside the completion callback
	outcome  error  // outcome the backend gives (decided when released)
	postShut bool   // offered/admitted after shutdown was requested
}

type c02Prod struct {
	id                   int
	req                  *c02Req
	ctx                  context.Context
	cancel               context.CancelFunc
	cancelled            bool
	task                 *simkit.Task
	yield                [3]bool
	cancelledBeforeAdmit bool   // its context was cancelled while it was parked between wake-up and re-lock
	lastSite             string // last cond hook site seen for the outstanding offer ("" = never in cond)
	passed               bool   // the goroutine has left that hook site (was not parked or has been released)
	sizeAtOffer          int64
	lockAt               string // lock-yield id at which the producer is parked before taking the queue mutex ("" = not parked)
}

type c02Sim struct {
	r    *simkit.Run
	tp   *simkit.Tape
	cfg  c02Cfg
	qb   *queuebatch.QueueBatch
	tel  *componenttest.Telemetry
	gate *simkit.Gate
	yg   *simkit.Gate

	mu       sync.Mutex
	handoffs []int // ids in hand-off order since last observe
	hooks    []string

	prods          []*c02Prod
	reqs           []*c02Req
	fifo           []int // admitted, not yet handed over (acceptance order)
	size           int64 // model: sum of sizes of admitted unfinished
	shut           *simkit.Task
	nextID         int
	fifoUnreliable bool
	soleWaiter     *c02Prod // the only producer blocked for space at the previous quiescence (nil if none or several)

	// lock-site yields (sites inserted at build time by tools/lockinst.py, see lockYield)
	lockMask  uint64
	lockSeen  map[string]int // arrivals per site
	lockNew   []string       // ids parked since the last observe
	inSched   atomic.Bool    // the scheduler goroutine itself is calling into the queue: never park
	quiet     bool           // quiet / abort phase: nothing parks any more
	doneEvReq *c02Req        // request whose backend answer is this step's event

	droppedIdx []int // item indexes whose read failed (storage fault), not yet folded into the model
	admitSeq   []int // request ids in admission order = item index order of the persistent queue
}

type c02Cfg struct {
	Persistent bool   `json:"persistent"`
	Sizer      string `json:"sizer"`
	Cap        int64  `json:"capacity"`
	Consumers  int    `json:"consumers"`
	Block      bool   `json:"block_on_overflow"`
	Wait       bool   `json:"wait_for_result"`
	Producers  int    `json:"producers"`
	// Crowd: more blocking producers than usual in front of a small in-memory queue; the shutdown event is enabled as
	// soon as three of them wait for space
	Crowd      bool `json:"crowd_of_blocking_producers,omitempty"`
	Steps      int  `json:"steps"`
	MidShut    bool `json:"shutdown_mid_run"`
	Yields     bool `json:"yield_hooks"`
	LockYields bool `json:"lock_site_yields"`
	// ReadFaults: ordinals (1-based) of the persistent queue's item reads that fail with a storage error: the queue
	// drops such an item (it cannot be handed over), everything else must carry on
	ReadFaults []int `json:"storage_read_faults,omitempty"`
	// WriteFaults: ordinals (1-based) of the persistent queue's item writes (the Offer transaction) that fail: that
	// Offer returns the error and nothing about the queue changes
	WriteFaults []int `json:"storage_write_faults,omitempty"`
	// ShutErrs: completions may also carry a shutdown-class error (what the retry sender returns for a request it
	// gave up because of its own shutdown): for the running queue it is one more way for a request to finish
	ShutErrs bool `json:"shutdown_class_completions,omitempty"`
	// Signal of the exporter the queue belongs to (the queue front keeps a per-signal counter; profiles has none)
	Signal string `json:"signal"`
}

var errBackend = errors.New("sim backend failure")
var errShutClass = experr.NewShutdownErr(errors.New("sim: request interrupted by the sender's shutdown"))

var yieldSites = []string{"cond.wait", "cond.woken.cancel", "cond.woken.signal"}

func c02Config(tp *simkit.Tape) c02Cfg {
	c := c02Cfg{}
	c.Persistent = tp.Chance(1, 4)
	if c.Persistent {
		c.Sizer = "requests"
	} else {
		c.Sizer = []string{"requests", "items", "bytes"}[tp.Draw(3)]
	}
	c.Cap = int64(tp.Range(1, 8))
	c.Consumers = tp.Range(1, 3)
	c.Block = tp.Chance(1, 2)
	if !c.Persistent {
		c.Wait = tp.Chance(1, 3)
	}
	c.Producers = tp.Range(1, 4)
	c.Steps = tp.Range(8, 40)
	c.MidShut = tp.Chance(1, 6)
	c.Yields = c.Block && tp.Chance(2, 3)
	c.LockYields = tp.Chance(1, 2)
	if !c.Persistent && c.Block && tp.Chance(1, 4) {
		// a crowd: more blocking producers than usual in front of a small in-memory queue, often shut down mid-run
		c.Crowd = true
		c.Producers += tp.Range(1, 4)
		if tp.Chance(1, 2) {
			c.Cap = int64(tp.Range(1, 2))
		}
		c.MidShut = c.MidShut || tp.Chance(1, 2)
	}
	if c.Persistent && c.Producers == 1 && tp.Chance(1, 2) {
		n := tp.Range(1, 2)
		for i := 0; i < n; i++ {
			c.ReadFaults = append(c.ReadFaults, tp.Range(1, 6))
		}
		if tp.Chance(1, 2) {
			c.WriteFaults = append(c.WriteFaults, tp.Range(1, 6))
		}
	} else if c.Persistent && c.Producers >= 2 && tp.Chance(1, 2) {
		// several producers: only the Offer transaction fails (a read fault needs the one-producer admission order)
		if tp.Chance(2, 3) {
			// a full disk: a window of consecutive writes fails, with more (blocking) producers than the queue has room for
			c.Block = true
			c.Producers += tp.Range(1, 3)
			if tp.Chance(2, 3) {
				c.Cap = int64(tp.Range(1, 2))
			}
			from, n := tp.Range(2, 5), tp.Range(2, 6)
			for i := 0; i < n; i++ {
				c.WriteFaults = append(c.WriteFaults, from+i)
			}
		} else {
			n := tp.Range(1, 3)
			for i := 0; i < n; i++ {
				c.WriteFaults = append(c.WriteFaults, tp.Range(1, 10))
			}
		}
	}
	c.ShutErrs = tp.Chance(1, 3)
	c.Signal = []string{"logs", "traces", "metrics", "profiles"}[tp.Weighted(3, 1, 1, 2)]
	return c
}

func (s *c02Sim) sizerType() request.SizerType {
	switch s.cfg.Sizer {
	case "items":
		return request.SizerTypeItems
	case "bytes":
		return request.SizerTypeBytes
	}
	return request.SizerTypeRequests
}

func (s *c02Sim) sizeOf(q *simReq) int64 {
	switch s.cfg.Sizer {
	case "items":
		return int64(q.items)
	case "bytes":
		return int64(q.bytes)
	}
	return 1
}

func (s *c02Sim) gauge(name string) int64 {
	s.inSched.Store(true)
	defer s.inSched.Store(false)
	m, err := s.tel.GetMetric(name)
	if err != nil {
		return -1 << 40
	}
	g, ok := m.Data.(metricdata.Gauge[int64])
	if !ok || len(g.DataPoints) != 1 {
		return -1 << 40
	}
	return g.DataPoints[0].Value
}

func runC02(r *simkit.Run) {
	tp := r.Tape
	s := &c02Sim{r: r, tp: tp, cfg: c02Config(tp), gate: simkit.NewGate(), yg: simkit.NewGate()}
	r.Sample = s.cfg
	cfg := s.cfg
	s.tel = componenttest.NewTelemetry()
	disk := NewDisk()
	inc := disk.NewIncarnation(1)
	host := &simHost{ext: map[component.ID]component.Component{storageID: inc}}
	if len(cfg.ReadFaults)+len(cfg.WriteFaults) > 0 {
		reads, writes := 0, 0
		inc.FailIf = func(_ int, ops []string) bool {
			for _, op := range ops {
				if strings.HasPrefix(op, "set(wi,") {
					writes++
					for _, f := range cfg.WriteFaults {
						if f == writes {
							r.Count("fault.storage_write_error")
							return true
						}
					}
				}
				var idx int
				if n, _ := fmt.Sscanf(op, "get(%d)", &idx); n == 1 {
					reads++
					for _, f := range cfg.ReadFaults {
						if f == reads {
							s.mu.Lock()
							s.droppedIdx = append(s.droppedIdx, idx)
							s.mu.Unlock()
							r.Count("fault.storage_read_error")
							return true
						}
					}
				}
			}
			return false
		}
	}

	qcfg := queuebatch.Config{
		Enabled: true, WaitForResult: cfg.Wait, Sizer: s.sizerType(), QueueSize: cfg.Cap,
		BlockOnOverflow: cfg.Block, NumConsumers: cfg.Consumers,
	}
	if cfg.Persistent {
		sid := storageID
		qcfg.StorageID = &sid
	}
	if err := qcfg.Validate(); err != nil {
		panic("harness: generated invalid config: " + err.Error())
	}
	set := queuebatch.Settings[request.Request]{
		Signal: map[string]pipeline.Signal{"logs": pipeline.SignalLogs, "traces": pipeline.SignalTraces, "metrics": pipeline.SignalMetrics, "profiles": xpipeline.SignalProfiles}[cfg.Signal], ID: component.MustNewID("simexp"), Telemetry: s.tel.NewTelemetrySettings(),
		Encoding: simReqEncoding{}, Sizers: simSizers(),
	}
	export := func(_ context.Context, req request.Request) error {
		q := req.(*simReq)
		s.mu.Lock()
		s.handoffs = append(s.handoffs, q.id)
		s.mu.Unlock()
		v := s.gate.Park("exp:r" + fmt.Sprintf("%03d", q.id))
		if v == nil {
			return nil
		}
		return v.(error)
	}
	if cfg.LockYields {
		s.lockMask = uint64(tp.Draw(1<<16)) | uint64(tp.Draw(1<<16))<<16 | uint64(tp.Draw(1<<16))<<32 | uint64(tp.Draw(1<<16))<<48
	}
	s.lockSeen = map[string]int{}
	queuebatch.VerifYield = func(ctx context.Context, site string) {
		if strings.HasPrefix(site, "lock:") {
			s.lockYield(ctx, site)
			return
		}
		p, _ := ctx.Value(prodKeyT{}).(*c02Prod)
		if p == nil {
			return
		}
		s.mu.Lock()
		s.hooks = append(s.hooks, fmt.Sprintf("p%d:%s", p.id, site))
		p.lastSite = site
		p.passed = false
		s.mu.Unlock()
		// Only the two sites between wake-up and re-lock park. Parking at "cond.wait" (after the unlock, before the
		// select) would let a Signal block on the token channel while it holds the queue mutex although the parked
		// waiter is merely slow, and the scheduler's own gauge read would then wedge on that mutex: a false hang.
		for i, ys := range yieldSites {
			if i > 0 && ys == site && p.yield[i] {
				s.yg.Park(fmt.Sprintf("yield:p%d:%s", p.id, site))
			}
		}
		s.mu.Lock()
		p.passed = true
		s.mu.Unlock()
	}
	queuebatch.VerifResetPools()
	defer func() { queuebatch.VerifYield = nil }()

	qb, err := queuebatch.NewQueueBatch(set, qcfg, export)
	if err != nil {
		panic(err)
	}
	s.qb = qb
	s.inSched.Store(true)
	sctx, started := simkit.StartContext(tp)
	if err := qb.Start(sctx, host); err != nil {
		panic(err)
	}
	started()
	s.inSched.Store(false)
	for i := 0; i < cfg.Producers; i++ {
		s.prods = append(s.prods, &c02Prod{id: i})
	}
	r.Settle()
	s.observe("start")

	shutFired := false
	for step := 0; step < cfg.Steps && !r.Failed(); step++ {
		var ch []simkit.Choice
		if !shutFired {
			for _, p := range s.prods {
				if p.req == nil {
					p := p
					ch = append(ch, simkit.Choice{Name: fmt.Sprintf("offer:p%d", p.id), W: 3, Fire: func() { s.offer(p) }})
					break // producers are symmetric: enabling the lowest free one is enough
				}
			}
		}
		for _, id := range s.gate.Parked() {
			id := id
			ch = append(ch, simkit.Choice{Name: "done-ok:" + id, W: 2, Fire: func() { s.complete(id, nil) }})
			ch = append(ch, simkit.Choice{Name: "done-err:" + id, W: 1, Fire: func() { s.complete(id, errBackend) }})
			if cfg.ShutErrs {
				ch = append(ch, simkit.Choice{Name: "done-shut:" + id, W: 1, Fire: func() { s.complete(id, errShutClass) }})
			}
		}
		for _, p := range s.prods {
			// Cancellation is delivered only to a producer that sits in a select (waiting for space or for its
			// result), never to one parked at a yield point: that would make two select cases ready at once, and Go's
			// choice among ready cases is not under the tape's control (DESIGN.md section 8). The one exception is a
			// producer parked right after it took its wake-up ("cond.woken.signal"): its select is over, so a context
			// that ends now - between the wake-up and the re-lock - is seen deterministically by whatever the queue
			// does next with that context.
			if p.req != nil && !p.cancelled && !p.task.Done() && p.lockAt == "" && (!p.blocked() || (p.lastSite == "cond.wait" && p.passed) || (p.lastSite == "cond.woken.signal" && !p.passed)) {
				p := p
				ch = append(ch, simkit.Choice{Name: fmt.Sprintf("cancel:p%d", p.id), W: 1, Fire: func() {
					p.cancelled = true
					// cancelled between its wake-up and the re-lock: whatever the queue does with the context next
					// (a persistent queue: the storage transaction of the Offer) sees it ended
					p.cancelledBeforeAdmit = p.lastSite == "cond.woken.signal" && !p.passed
					r.Count("fault.ctx_cancel")
					p.cancel()
				}})
			}
		}
		for _, id := range s.yg.Parked() {
			id := id
			ch = append(ch, simkit.Choice{Name: "release:" + id, W: 2, Fire: func() { s.release(id) }})
		}
		waitingForSpace := 0
		for _, p := range s.prods {
			if p.req != nil && !p.task.Done() && p.lastSite == "cond.wait" && !p.cancelled {
				waitingForSpace++
			}
		}
		if cfg.MidShut && !shutFired && (step > cfg.Steps/2 || cfg.Crowd && waitingForSpace >= 3) {
			w := 1
			if cfg.Crowd && waitingForSpace >= 3 {
				w = 3
			}
			ch = append(ch, simkit.Choice{Name: "shutdown", W: w, Fire: func() {
				shutFired = true
				r.Count("event.shutdown_mid_run")
				s.startShutdown()
			}})
		}
		if len(ch) == 0 {
			break
		}
		ev := r.Pick(ch)
		s.observe(ev)
	}

	// ---- quiet phase: no more offers, no more faults; everything parked is released until the system is idle.
	s.quiet = true
	for i := 0; i < 400 && !r.Failed(); i++ {
		ys := s.yg.Parked()
		es := s.gate.Parked()
		if len(ys) == 0 && len(es) == 0 {
			break
		}
		if len(ys) > 0 {
			id := ys[0]
			r.Fire("quiet-release:"+id, func() { s.release(id) })
			s.observe("quiet-release:" + id)
		} else {
			id := es[0]
			r.Fire("quiet-done-ok:"+id, func() { s.complete(id, nil) })
			s.observe("quiet")
		}
	}
	if r.Failed() {
		s.abort()
		return
	}
	s.finalChecks(shutFired)
	if r.Failed() {
		s.abort()
		return
	}
	if !shutFired {
		s.startShutdown()
		r.Settle()
	}
	if !s.shut.Done() {
		r.Failf("liveness", "shutdown", "Shutdown did not return on an idle queue")
		s.abort()
		return
	}
	// Producers admitted after shutdown was requested are outside the property (the stopped in-memory queue accepts
	// them and never serves them); end their contexts so that the bubble can finish.
	s.abort()
	_ = s.tel.Shutdown(context.Background())
}

func (s *c02Sim) startShutdown() {
	nb := 0
	for _, p := range s.prods {
		if p.req != nil && !p.task.Done() && p.lastSite == "cond.wait" && !p.cancelled {
			nb++
		}
	}
	if nb > 0 {
		s.r.Count(fmt.Sprintf("probe.shutdown_with_%d_producers_blocked_for_space", min(nb, 5)))
	}
	s.shut = simkit.Go("shutdown", func(t *simkit.Task) { t.Err = s.qb.Shutdown(context.Background()) })
	for _, q := range s.reqs {
		// The exactly-once clause is about a running queue. A request not yet admitted when shutdown is requested
		// may be accepted by the stopped in-memory queue and never served; a persistent queue stops dispatching at
		// once and keeps what it has not handed over on disk (that is C03's subject).
		if !q.admitted || (s.cfg.Persistent && q.handed == 0) {
			q.postShut = true
		}
	}
}

// abort releases everything so that the bubble can end; used after a violation.
func (s *c02Sim) abort() {
	s.quiet = true
	for _, p := range s.prods {
		if p.cancel != nil {
			p.cancel()
		}
	}
	for i := 0; i < 200; i++ {
		s.r.Settle()
		if s.yg.ReleaseAll(nil)+s.gate.ReleaseAll(nil) == 0 {
			break
		}
	}
	if s.shut == nil {
		s.startShutdown()
		s.r.Settle()
	}
}

func (s *c02Sim) offer(p *c02Prod) {
	tp := s.tp
	s.nextID++
	q := &simReq{id: s.nextID}
	// sizes: mostly small, sometimes 0, sometimes larger than the capacity
	switch tp.Weighted(8, 1, 1) {
	case 0:
		q.items = tp.Range(1, int(min64(s.cfg.Cap, 4)))
	case 1:
		q.items = 0
	default:
		q.items = int(s.cfg.Cap) + tp.Range(1, 2)
	}
	q.bytes = q.items * 1
	if s.cfg.Sizer == "bytes" {
		q.bytes = q.items
		q.items = 1
	}
	rq := &c02Req{id: q.id, size: s.sizeOf(q), prod: p.id}
	if s.shut != nil {
		rq.postShut = true
	}
	s.reqs = append(s.reqs, rq)
	p.req = rq
	p.cancelled = false
	p.lastSite = ""
	p.cancelledBeforeAdmit = false
	p.passed = false
	p.yield = [3]bool{}
	if s.cfg.Yields {
		for i := range p.yield {
			p.yield[i] = tp.Chance(1, 3)
		}
	}
	ctx, cancel := context.WithCancel(context.WithValue(context.Background(), prodKeyT{}, p))
	p.ctx, p.cancel = ctx, cancel
	p.sizeAtOffer = s.gauge("otelcol_exporter_queue_size")
	s.r.Logf("  req r%03d size=%d by p%d yield=%v", rq.id, rq.size, p.id, p.yield)
	p.task = simkit.Go(fmt.Sprintf("p%d", p.id), func(t *simkit.Task) {
		t.Err = s.qb.Send(ctx, q)
	})
}

func min64(a, b int64) int64 {
	if a < b {
		return a
	}
	return b
}

func (s *c02Sim) complete(gateID string, outcome error) {
	id, _ := strconv.Atoi(strings.TrimPrefix(gateID, "exp:r"))
	q := s.req(id)
	q.outcome = outcome
	if outcome != nil {
		s.r.Count("fault.backend_error")
	}
	if outcome == errShutClass {
		s.r.Count("fault.shutdown_class_completion")
	}
	// The backend answers; the model releases the size when the completion callback has run: in this step, unless the
	// completing consumer gets parked at a lock site inside the callback (observe decides).
	q.answered = true
	s.doneEvReq = q
	s.gate.Release(gateID, outcome)
}

// release lets a goroutine parked at a yield continue. For a producer parked before it takes the queue mutex the
// release is its admission step: the refusal clauses compare with the size reported now.
func (s *c02Sim) release(id string) {
	for _, p := range s.prods {
		if p.req != nil && p.lockAt == id {
			p.sizeAtOffer = s.gauge("otelcol_exporter_queue_size")
		}
	}
	for _, q := range s.reqs {
		if q.doneAt == id {
			s.doneEvReq = q // its completion callback continues now
			q.doneAt = ""
		}
	}
	s.yg.Release(id, nil)
}

// lockYield is called (through the instrumented build) right before a goroutine takes a mutex of the queue package; it
// holds none of them at that point. Whether the n-th arrival at a site parks comes from a mask drawn in advance (the
// tape is never read off the scheduler goroutine). Consumers are interchangeable, so racing arrivals of two of them
// at one site yield equivalent states.
func (s *c02Sim) lockYield(ctx context.Context, site string) {
	if s.inSched.Load() || !s.cfg.LockYields || s.quiet {
		return
	}
	fn := site[len("lock:"):]
	switch {
	case strings.HasSuffix(fn, ".Size"), strings.HasSuffix(fn, ".Shutdown"), strings.HasSuffix(fn, ".Start"):
		return
	}
	p, _ := ctx.Value(prodKeyT{}).(*c02Prod)
	s.mu.Lock()
	k := s.lockSeen[site]
	s.lockSeen[site] = k + 1
	h := uint64(14695981039346656037)
	for i := 0; i < len(site); i++ {
		h = (h ^ uint64(site[i])) * 1099511628211
	}
	park := s.lockMask>>((h+uint64(k))%64)&1 == 1
	id := fmt.Sprintf("yield:%s#%d", site, k)
	if p != nil {
		id = fmt.Sprintf("yield:p%d:%s#%d", p.id, site, k)
	}
	if park {
		s.lockNew = append(s.lockNew, id)
		if p != nil {
			p.lockAt = id
		}
	}
	s.mu.Unlock()
	if !park {
		return
	}
	s.r.Count("fault.parked_before_lock/" + fn)
	s.yg.Park(id)
	if p != nil {
		s.mu.Lock()
		p.lockAt = ""
		s.mu.Unlock()
	}
}

func (s *c02Sim) req(id int) *c02Req {
	for _, q := range s.reqs {
		if q.id == id {
			return q
		}
	}
	return nil
}

// blocked reports whether the producer's outstanding offer is inside cond.Wait at quiescence.
func (p *c02Prod) blocked() bool {
	return p.lastSite == "cond.wait" || (strings.HasPrefix(p.lastSite, "cond.woken") && !p.passed)
}

// observe runs at quiescence after every event: it folds what the real queue did into the reference model and
// checks the step-wise clauses.
func (s *c02Sim) observe(ev string) {
	r := s.r
	cfg := s.cfg
	s.mu.Lock()
	handoffs := s.handoffs
	s.handoffs = nil
	hooks := s.hooks
	s.hooks = nil
	lockNew := s.lockNew
	s.lockNew = nil
	s.mu.Unlock()
	if len(hooks) > 0 {
		sort.Strings(hooks)
		r.Logf("  hooks %v", hooks)
	}
	if len(lockNew) > 0 {
		sort.Strings(lockNew)
		r.Logf("  parked before a lock: %v", lockNew)
	}
	// 0. the completion of this step's request: its callback has run unless its consumer is parked inside it
	if q := s.doneEvReq; q != nil {
		s.doneEvReq = nil
		for _, id := range lockNew {
			if strings.Contains(id, ".onDone#") && q.doneAt == "" {
				q.doneAt = id
			}
		}
		if q.doneAt == "" && !q.finished {
			q.finished = true
			s.size -= q.size
		}
	}

	// 1. producers: returned / blocked / admitted
	var admittedNow []*c02Req
	admit := func(q *c02Req) {
		if !q.admitted {
			q.admitted = true
			admittedNow = append(admittedNow, q)
		}
	}
	for _, p := range s.prods {
		q := p.req
		if q == nil {
			continue
		}
		// the step in which the producer's offer takes the queue mutex: the offer event, or the release of the
		// lock-site yield at which it was parked before that
		isOfferStep := ev == fmt.Sprintf("offer:p%d", p.id) || strings.Contains(ev, fmt.Sprintf("release:yield:p%d:lock:", p.id))
		s.mu.Lock()
		atLock := p.lockAt != ""
		s.mu.Unlock()
		if atLock && !p.task.Done() {
			continue // parked before the queue mutex: neither admitted nor refused yet
		}
		if p.task.Done() {
			err := p.task.Err
			r.Logf("  p%d returned %s", p.id, simkit.ShortErr(err))
			neverAdmitted := p.lastSite == "cond.woken.cancel" && p.passed
			switch {
			case q.size == 0:
				if err != nil {
					r.Failf("offer-result", "zero-size", "zero-sized request r%03d was refused with %v", q.id, err)
				}
			case q.size > cfg.Cap:
				if err == nil {
					r.Failf("refusal", "accepted-over-capacity", "r%03d of size %d accepted by a queue of capacity %d", q.id, q.size, cfg.Cap)
				}
				r.Count("probe.refused_too_large")
			case err == nil:
				admit(q)
				if cfg.Wait {
					if !q.answered {
						r.Failf("wait-result", "early-return", "wait_for_result producer p%d returned nil before its request r%03d was finished", p.id, q.id)
					} else if q.outcome != nil {
						r.Failf("wait-result", "wrong-outcome", "producer p%d got nil, its request r%03d finished with %v", p.id, q.id, q.outcome)
					}
				}
			case errors.Is(err, queuebatch.ErrQueueIsFull):
				if cfg.Block {
					r.Failf("offer-result", "full-while-blocking", "block_on_overflow queue refused r%03d with queue-full", q.id)
				}
				if p.sizeAtOffer >= 0 && p.sizeAtOffer+q.size <= cfg.Cap {
					r.Failf("refusal", "refused-with-space", "r%03d (size %d) refused although reported size %d + %d <= capacity %d", q.id, q.size, p.sizeAtOffer, q.size, cfg.Cap)
				}
				r.Count("probe.refused_full")
			case errors.Is(err, context.Canceled):
				if !p.cancelled {
					r.Failf("offer-result", "spurious-cancel", "producer p%d got %v without its context being cancelled", p.id, err)
				}
				if cfg.Persistent && p.cancelledBeforeAdmit {
					// the storage refused the Offer's transaction because the producer's context had ended: not admitted
					r.Count("probe.refused_context_ended_before_storage_write")
				} else if !neverAdmitted {
					if !cfg.Wait {
						r.Failf("offer-result", "cancel-outside-wait", "producer p%d got %v although it was not waiting for space", p.id, err)
					}
					admit(q) // cancelled while waiting for the result: the request stays queued
					r.Count("probe.cancel_while_waiting_result")
				} else {
					r.Count("probe.cancel_while_blocked")
				}
			case cfg.Wait && q.answered && q.outcome != nil && errors.Is(err, q.outcome):
				admit(q)
			case s.shut != nil && strings.Contains(err.Error(), "queue is stopped"):
				// the property speaks of a running queue: once Shutdown has been requested an offer (also one that was
				// waiting for space) may be refused because the queue is stopped - never handed over then
				r.Count("probe.refused_queue_stopped")
			case len(cfg.WriteFaults) > 0 && strings.Contains(err.Error(), "simdisk: injected I/O error"):
				// the Offer's storage transaction failed: refused, nothing stored
				r.Count("probe.refused_storage_write_error")
			default:
				r.Failf("offer-result", "unexpected-error", "producer p%d offering r%03d (size %d) got unexpected error %v", p.id, q.id, q.size, err)
			}
			if cfg.Wait && q.answered && err != nil && !errors.Is(err, context.Canceled) && q.outcome == nil {
				r.Failf("wait-result", "wrong-outcome", "producer p%d got %v, its request r%03d finished successfully", p.id, err, q.id)
			}
			p.req = nil
			p.cancel()
			continue
		}
		// still pending
		if p.blocked() {
			if isOfferStep {
				r.Count("probe.producer_blocked")
				if !cfg.Block {
					r.Failf("offer-result", "blocked-nonblocking", "producer p%d blocked on a non-blocking queue", p.id)
				}
				if p.sizeAtOffer >= 0 && p.sizeAtOffer+q.size <= cfg.Cap {
					r.Failf("refusal", "blocked-with-space", "r%03d (size %d) blocked although reported size %d + %d <= capacity %d", q.id, q.size, p.sizeAtOffer, q.size, cfg.Cap)
				}
			}
			continue
		}
		// pending and not in cond: it must be a wait_for_result producer whose request sits in the queue
		if !cfg.Wait {
			r.Failf("offer-result", "stuck-offer", "producer p%d neither returned nor blocked for space (r%03d)", p.id, q.id)
			continue
		}
		admit(q)
	}
	nblocked := 0
	for _, p := range s.prods {
		if p.req != nil && p.blocked() {
			nblocked++
		}
	}
	if nblocked >= 2 {
		r.Count("probe.two_blocked")
	}
	{
		nc, ns := 0, 0
		for _, id := range s.yg.Parked() {
			if strings.HasSuffix(id, "cond.woken.cancel") {
				nc++
			} else {
				ns++
			}
		}
		if nc >= 1 {
			r.Count("probe.waiter_parked_after_cancel_wake")
		}
		if nc >= 2 {
			r.Count("probe.two_waiters_parked_after_cancel_wake")
		}
		if ns >= 1 {
			r.Count("probe.waiter_parked_after_signal_wake")
		}
		if nc >= 1 && strings.HasPrefix(ev, "done-") {
			r.Count("probe.signal_and_cancel_both_pending")
		}
	}

	// 2. admissions (acceptance order = order of the steps; at most one per step)
	sort.Slice(admittedNow, func(i, j int) bool { return admittedNow[i].id < admittedNow[j].id })
	if len(admittedNow) > 1 {
		s.fifoUnreliable = true
		r.Count("probe.two_admissions_in_one_step")
	}
	for _, q := range admittedNow {
		s.size += q.size
		s.fifo = append(s.fifo, q.id)
		s.admitSeq = append(s.admitSeq, q.id)
		r.Logf("  admitted r%03d", q.id)
		p := s.prods[q.prod]
		if (ev == fmt.Sprintf("offer:p%d", p.id) || strings.Contains(ev, fmt.Sprintf("release:yield:p%d:lock:", p.id))) && p.sizeAtOffer+q.size > cfg.Cap {
			r.Failf("refusal", "accepted-over-capacity", "r%03d (size %d) accepted although reported size %d + %d > capacity %d", q.id, q.size, p.sizeAtOffer, q.size, cfg.Cap)
		}
	}

	// 2b. items the persistent queue could not read back (injected storage fault): dropped, never handed over
	s.mu.Lock()
	dropped := s.droppedIdx
	s.droppedIdx = nil
	s.mu.Unlock()
	for _, idx := range dropped {
		if idx < 0 || idx >= len(s.admitSeq) {
			r.Failf("harness", "dropped-index", "storage read fault on item index %d, %d requests admitted", idx, len(s.admitSeq))
			continue
		}
		q := s.req(s.admitSeq[idx])
		r.Logf("  r%03d dropped by the queue: its read from storage failed", q.id)
		q.dropped, q.finished, q.answered = true, true, true
		s.size -= q.size
		for i, x := range s.fifo {
			if x == q.id {
				s.fifo = append(s.fifo[:i], s.fifo[i+1:]...)
				break
			}
		}
	}

	// 3. hand-offs
	if len(handoffs) > 0 {
		r.Logf("  handoffs %v", sortedIfMulti(handoffs, cfg.Consumers))
	}
	for _, id := range handoffs {
		q := s.req(id)
		if q == nil {
			r.Failf("handoff", "unknown-request", "export function received unknown request id %d", id)
			continue
		}
		q.handed++
		if q.handed > 1 {
			r.Failf("handoff", "double", "request r%03d handed to a consumer %d times", id, q.handed)
			continue
		}
		if !q.admitted {
			r.Failf("handoff", "not-accepted", "request r%03d handed over but its enqueue did not succeed", id)
			continue
		}
		idx := -1
		for i, x := range s.fifo {
			if x == id {
				idx = i
			}
		}
		if idx < 0 {
			r.Failf("handoff", "not-queued", "request r%03d handed over but not in the model queue", id)
			continue
		}
		if cfg.Consumers == 1 && idx != 0 && !s.fifoUnreliable {
			r.Failf("fifo", "order", "single consumer received r%03d before earlier accepted r%03d", id, s.fifo[0])
		}
		s.fifo = append(s.fifo[:idx], s.fifo[idx+1:]...)
	}

	// 4. gauges
	size := s.gauge("otelcol_exporter_queue_size")
	capv := s.gauge("otelcol_exporter_queue_capacity")
	if s.shut == nil || !s.shut.Done() {
		if capv != cfg.Cap {
			r.Failf("gauge", "capacity", "capacity gauge reports %d, configured %d", capv, cfg.Cap)
		}
		if size < 0 {
			r.Failf("size", "negative", "reported queue size %d is negative", size)
		}
		if size > cfg.Cap {
			r.Failf("size", "above-capacity", "reported queue size %d exceeds capacity %d", size, cfg.Cap)
		}
		if !cfg.Persistent && size != s.size {
			r.Failf("size", "not-sum", "reported size %d, summed size of accepted-but-unfinished requests is %d", size, s.size)
		}
		if s.size == 0 && size != 0 {
			r.Failf("size", "nonzero-when-idle", "reported size %d although every accepted request has finished", size)
		}
		// 5. nobody left blocked on an empty queue (only when no waiter is parked at a yield: such a waiter is
		// "about to run", not left behind)
		if s.size == 0 && len(s.yg.Parked()) == 0 && s.shut == nil {
			for _, p := range s.prods {
				if p.req != nil && p.lastSite == "cond.wait" && !p.cancelled && p.req.size <= cfg.Cap {
					r.Failf("lost-wakeup", "blocked-on-empty", "producer p%d still blocked for space (r%03d size %d) while the queue is empty", p.id, p.req.id, p.req.size)
				}
			}
		}
	}
	// 5b. the same once Shutdown has returned: a stopped in-memory queue releases the producers that wait for space, and
	// those it did not release at once are released by the completions of the drain; with every accepted request finished
	// (the gauges are gone by then: the model's size), nothing in flight and nothing parked nobody may still be waiting
	if s.shut != nil && s.shut.Done() && !cfg.Persistent && s.size == 0 && len(s.yg.Parked()) == 0 && len(s.gate.Parked()) == 0 {
		for _, p := range s.prods {
			if p.req != nil && !p.task.Done() && p.lastSite == "cond.wait" && !p.cancelled && p.req.size <= cfg.Cap {
				r.Failf("lost-wakeup", "blocked-on-empty-after-shutdown", "producer p%d still blocked for space (r%03d size %d) although the queue was shut down, has drained and is empty", p.id, p.req.id, p.req.size)
			}
		}
	}
	// 6. a single waiter is released by the completion that frees enough space for it
	if strings.HasPrefix(ev, "done-") && s.soleWaiter != nil && s.shut == nil && len(s.yg.Parked()) == 0 {
		p := s.soleWaiter
		if p.req != nil && !p.task.Done() && p.lastSite == "cond.wait" && !p.cancelled && size+p.req.size <= cfg.Cap {
			r.Failf("lost-wakeup", "single-waiter-not-released", "producer p%d is the only one waiting for space; a request finished and reported size %d + %d <= capacity %d, but it is still blocked", p.id, size, p.req.size, cfg.Cap)
		}
	}
	s.soleWaiter = nil
	if nblocked == 1 && len(s.yg.Parked()) == 0 {
		for _, p := range s.prods {
			if p.req != nil && !p.task.Done() && p.lastSite == "cond.wait" && p.passed {
				s.soleWaiter = p
			}
		}
	}
	r.State(fmt.Sprintf("size=%d/%d blocked=%d inflight=%d queued=%d yields=%d shut=%v", size, cfg.Cap, nblocked, len(s.gate.Parked()), len(s.fifo), len(s.yg.Parked()), s.shut != nil), evKind(ev))
	if nblocked > 0 || len(s.gate.Parked()) > 1 {
		r.Nontrivial = true
	}
}

func evKind(ev string) string {
	if i := strings.IndexByte(ev, ':'); i > 0 {
		return ev[:i]
	}
	return ev
}

func sortedIfMulti(ids []int, consumers int) []int {
	out := append([]int(nil), ids...)
	if consumers > 1 {
		sort.Ints(out)
	}
	return out
}

func (s *c02Sim) finalChecks(shutFired bool) {
	r := s.r
	for _, p := range s.prods {
		if p.req != nil && !p.task.Done() {
			if p.cancelled {
				r.Failf("liveness", "cancelled-not-returned", "producer p%d was cancelled but its offer of r%03d never returned", p.id, p.req.id)
			} else if !shutFired {
				r.Failf("lost-wakeup", "blocked-at-end", "producer p%d still blocked offering r%03d after every request finished", p.id, p.req.id)
			}
		}
	}
	for _, q := range s.reqs {
		switch {
		case q.admitted && q.handed == 0 && !q.postShut && !q.dropped && !(q.size == 0 && !s.cfg.Persistent):
			r.Failf("handoff", "never", "accepted request r%03d was never handed to a consumer", q.id)
		case !q.admitted && q.handed > 0:
			r.Failf("handoff", "not-accepted", "request r%03d was handed over although its enqueue did not succeed", q.id)
		}
	}
}

var HarnessC02 = simkit.Harness{
	Prop: "C02", Name: "exp/c02", Run: runC02, StepTimeout: 6e9,
	Real: []string{"queuebatch.QueueBatch (obsQueue, asyncQueue, memoryQueue, persistentQueue, cond, disabledBatcher)", "OTel metrics SDK (manual reader) for the size/capacity gauges"},
	Stub: []string{"request type with tape-chosen sizes", "export function (parks until the scheduler answers)", "storage extension (simdisk; optional injected read errors on the persistent queue's item reads, no crashes in C02)"},
	Rule: "one run = one tape-drawn configuration (queue kind, sizer, capacity, consumers, block_on_overflow, wait_for_result, producers, yield sites) and one event schedule (offer / backend answer ok|err / producer cancellation / yield release / shutdown), stepped one event per quiescence; 1 blocking in-memory run in 4 is a crowd (up to 8 producers in front of a small queue, the shutdown event enabled as soon as three of them wait for space; once Shutdown has returned and the accepted requests have finished nobody may still wait); distinct = distinct hash of the named event log; non-trivial = at least one producer was blocked for space or >=2 exports were in flight at some step",
}
