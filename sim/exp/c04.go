package verifsim

import (
	"context"
	"fmt"
	"sort"
	"strings"
	"time"

	"go.opentelemetry.io/collector/component"
	"go.opentelemetry.io/collector/component/componenttest"
	"go.opentelemetry.io/collector/exporter"
	"go.opentelemetry.io/collector/exporter/exporterhelper"
	"go.opentelemetry.io/collector/exporter/exporterhelper/internal/queuebatch"
	"verif.local/simkit"
	"verif.local/simkit/gen"
)

// ---- C04: exporter-side batching conserves items with identity, respects max size, completes producers -------

type c04Cfg struct {
	Signal   string `json:"signal"`
	Sizer    string `json:"sizer"`
	Legacy   bool   `json:"legacy_batcher"`
	Min      int64  `json:"min_size"`
	Max      int64  `json:"max_size"`
	FlushS   int    `json:"flush_timeout_s"`
	Prods    int    `json:"producers"`
	Steps    int    `json:"steps"`
	Oversize int    `json:"oversize_item_bytes"`
}

type c04Prod struct {
	id        int
	ids       map[string]string // items of the outstanding request
	task      *simkit.Task
	reqNo     int
	offeredAt int
}

type c04Sim struct {
	r     *simkit.Run
	cfg   c04Cfg
	ad    *sigAdapter
	be    *backend
	exp   simExporter
	prods []*c04Prod
	ids   *gen.IDs
	sent  map[string]string // every item ever offered (accepted into the exporter)
	// sentDeep: hash of each offered item's complete single-item form (gen.DeepItems)
	sentDeep map[string]string
	owner    map[string]int // item -> request number
	nreq     int
	// per request: returned?, error
	reqDone  map[int]bool
	reqErr   map[int]error
	reqItems map[int]map[string]string
	// deepChecked: highest batch number whose complete item contents have been compared
	deepChecked int
}

func c04Config(tp *simkit.Tape) c04Cfg {
	c := c04Cfg{}
	c.Signal = []string{"logs", "traces", "metrics", "profiles"}[tp.Weighted(3, 3, 3, 1)]
	c.Legacy = tp.Chance(1, 6)
	if c.Legacy || tp.Chance(1, 2) {
		c.Sizer = "items"
	} else {
		c.Sizer = "bytes"
	}
	if c.Sizer == "items" {
		c.Max = int64(tp.Draw(9)) // 0 = unlimited
		hi := c.Max
		if hi == 0 {
			hi = 10
		}
		c.Min = int64(tp.Draw(int(hi) + 1))
	} else {
		if tp.Chance(1, 5) {
			c.Max = 0
		} else {
			c.Max = int64(tp.Range(150, 900))
		}
		hi := c.Max
		if hi == 0 {
			hi = 900
		}
		c.Min = int64(tp.Draw(int(hi) + 1))
		if tp.Chance(1, 3) {
			c.Min = 0
		}
	}
	c.FlushS = tp.Range(1, 10)
	c.Prods = tp.Range(1, 3)
	c.Steps = tp.Range(6, 36)
	return c
}

func adapterByName(n string) *sigAdapter {
	if n == "profiles" {
		return profilesAdapter
	}
	for _, a := range adapters {
		if a.name == n {
			return a
		}
	}
	return nil
}

// runC04Sweep is the boundary supplement: MergeSplit called directly (through the helper's own request encoding) for a
// window of CONSECUTIVE max_size values on one payload, optionally merged with a second one. Random max_size values
// almost never fill a batch to the byte, and the byte accounting (length prefixes growing at 128 / 16384 bytes) can only
// be wrong by a byte at an exact fill; a window of consecutive limits meets every exact fill inside it. Same clauses
// and violation keys as the exporter-driven mode: conservation, identity, size bound; termination = the watchdog.
func runC04Sweep(r *simkit.Run) {
	tp := r.Tape
	sig := []string{"logs", "traces", "metrics", "profiles"}[tp.Weighted(3, 3, 4, 1)]
	ad := adapterByName(sig)
	sizerName := []string{"bytes", "items"}[tp.Weighted(4, 1)]
	szt := exporterhelper.RequestSizerTypeBytes
	if sizerName == "items" {
		szt = exporterhelper.RequestSizerTypeItems
	}
	ids := &gen.IDs{Prefix: "i"}
	sh := gen.Shape{MaxResources: tp.Range(1, 2), MaxScopes: tp.Range(1, 2), MaxMetrics: tp.Range(1, 2), MaxItems: tp.Range(2, 16), NonEmpty: true}
	p1 := ad.gen(tp, ids, sh)
	var p2 any
	if tp.Chance(1, 3) {
		p2 = ad.gen(tp, ids, gen.Shape{MaxResources: 1, MaxScopes: 2, MaxMetrics: 2, MaxItems: tp.Range(1, 8), NonEmpty: true})
	}
	if sizerName == "bytes" && tp.Chance(1, 2) {
		gen.Enrich(tp, p1, false)
		if p2 != nil {
			gen.Enrich(tp, p2, false)
		}
	}
	wantDeep := gen.DeepItems(p1)
	if p2 != nil {
		for k, v := range gen.DeepItems(p2) {
			wantDeep[k] = v
		}
	}
	b1 := ad.marshal(p1)
	var b2 []byte
	want := ad.items(p1)
	total := ad.bytes(p1)
	if p2 != nil {
		b2 = ad.marshal(p2)
		for k, v := range ad.items(p2) {
			want[k] = v
		}
		total += ad.bytes(p2)
	}
	if sizerName == "items" {
		total = len(want)
	}
	const window = 48
	lo := 1
	if total > 2 {
		lo = tp.Range(1, total)
	}
	if sizerName == "bytes" && lo < 24 {
		lo = 24
	}
	if sizerName == "bytes" && total > 170 && tp.Chance(1, 3) {
		// a length prefix grows from one byte to two at 128 bytes: a window around that size
		r.Count("probe.sweep_around_128")
		lo = 128 - 40 + tp.Draw(30)
	}
	if sizerName == "bytes" && tp.Chance(1, 10) {
		// the next growth of a length prefix is at 16384 bytes: one long flat payload and a window around that size
		r.Count("probe.sweep_around_16384")
		big := gen.Shape{MaxResources: 1, MaxScopes: 1, MaxMetrics: 1, MaxItems: 900, NonEmpty: true, Fixed: true}
		p1 = ad.gen(tp, ids, big)
		p2, b2 = nil, nil
		b1 = ad.marshal(p1)
		want = ad.items(p1)
		total = ad.bytes(p1)
		lo = 16384 - 40 + tp.Draw(60)
	}
	r.Sample = map[string]any{"mode": "sweep", "signal": sig, "sizer": sizerName, "items": len(want), "total_size": total, "max_size_from": lo, "max_size_to": lo + window - 1, "merged_with_second_request": p2 != nil}
	r.Logf("sweep %s sizer=%s total=%d items=%d max_size %d..%d second=%v", sig, sizerName, total, len(want), lo, lo+window-1, p2 != nil)
	if js := ad.json(p1); len(js) < 3000 {
		r.Logf("  payload: %s", js)
	}
	enc := ad.qbs().Encoding
	r.Nontrivial = true
	for max := lo; max < lo+window && !r.Failed(); max++ {
		simkit.Beat()
		req, err := enc.Unmarshal(b1)
		if err != nil {
			panic(err)
		}
		var req2 exporterhelper.Request
		if b2 != nil {
			if req2, err = enc.Unmarshal(b2); err != nil {
				panic(err)
			}
		}
		outs, err := req.MergeSplit(context.Background(), max, szt, req2)
		r.Events++
		r.AddCase(fmt.Sprintf("%s|%s|%d|%d", sig, sizerName, total, max), true)
		if err != nil {
			r.Failf("split", "error/"+sizerName, "MergeSplit(max_size=%d) failed: %v", max, err)
			break
		}
		seen := map[string]int{}
		for n, o := range outs {
			ob, err := enc.Marshal(o)
			if err != nil {
				panic(err)
			}
			pl := ad.unmarshal(ob)
			items := ad.items(pl)
			deep := gen.DeepItems(pl)
			for _, id := range sortedKeys(items) {
				fp := items[id]
				w, ok := want[id]
				if !ok {
					r.Failf("conservation", "invented-item", "max_size %d: batch %d contains item %s that was never offered (%s)", max, n+1, id, fp)
					continue
				}
				if w != fp {
					r.Failf("identity", sig+":"+strings.Join(gen.DiffFields(w, fp), "+"), "max_size %d: item %s left the batcher with a different context in batch %d: entered as %s, left as %s", max, id, n+1, w, fp)
				} else if wantDeep[id] != "" && deep[id] != wantDeep[id] {
					r.Failf("identity", sig+":content", "max_size %d: item %s left MergeSplit in batch %d with a content or context that differs from what entered (hash of the complete single-item form %s -> %s)", max, id, n+1, wantDeep[id], deep[id])
				}
				if prev, dup := seen[id]; dup {
					r.Failf("conservation", "duplicated-item", "max_size %d: item %s is in batch %d and in batch %d", max, id, prev, n+1)
				}
				seen[id] = n + 1
			}
			size := len(items)
			if sizerName == "bytes" {
				size = ad.bytes(pl)
			}
			indivisible := len(items) == 1
			if ad.units != nil {
				indivisible = ad.units(pl) == 1
			}
			if size > max && !indivisible {
				locus := sizerName
				if ad.hollow(pl) {
					locus += "/batch-with-empty-containers"
				}
				r.Failf("size-bound", locus, "batch %d has size %d %s > max_size %d and holds %d items: %s", n+1, size, sizerName, max, len(items), ad.json(pl))
			}
		}
		for _, id := range sortedKeys(want) {
			if _, ok := seen[id]; !ok {
				r.Failf("conservation", "lost-item", "max_size %d: item %s entered MergeSplit and is in none of the %d batches", max, id, len(outs))
				break
			}
		}
	}
}

func runC04(r *simkit.Run) {
	tp := r.Tape
	if tp.Chance(1, 8) {
		runC04Sweep(r)
		return
	}
	cfg := c04Config(tp)
	r.Sample = cfg
	queuebatch.VerifResetPools()
	start := time.Now()
	s := &c04Sim{r: r, cfg: cfg, ad: adapterByName(cfg.Signal), ids: &gen.IDs{Prefix: "i"}, sent: map[string]string{}, sentDeep: map[string]string{}, owner: map[string]int{},
		reqDone: map[int]bool{}, reqErr: map[int]error{}, reqItems: map[int]map[string]string{}}
	s.be = newBackend(s.ad, func() int64 { return time.Now().UnixNano() })
	s.be.evNow = func() int { return r.Events }

	var opts []exporterhelper.Option
	sizer := exporterhelper.RequestSizerTypeItems
	if cfg.Sizer == "bytes" {
		sizer = exporterhelper.RequestSizerTypeBytes
	}
	if cfg.Legacy {
		bc := exporterhelper.NewDefaultBatcherConfig()
		bc.FlushTimeout = time.Duration(cfg.FlushS) * time.Second
		bc.MinSize, bc.MaxSize = cfg.Min, cfg.Max
		if err := bc.Validate(); err != nil {
			panic("harness: invalid legacy batcher config: " + err.Error())
		}
		opts = append(opts, exporterhelper.WithBatcher(bc))
	} else {
		qc := exporterhelper.NewDefaultQueueConfig()
		qc.Sizer = sizer
		qc.QueueSize = 1 << 30
		qc.WaitForResult = true
		qc.BlockOnOverflow = true
		qc.NumConsumers = 2
		qc.Batch = &exporterhelper.BatchConfig{FlushTimeout: time.Duration(cfg.FlushS) * time.Second, MinSize: cfg.Min, MaxSize: cfg.Max}
		if err := qc.Validate(); err != nil {
			panic("harness: invalid queue config: " + err.Error())
		}
		if err := qc.Batch.Validate(); err != nil {
			panic("harness: invalid batch config: " + err.Error())
		}
		opts = append(opts, exporterhelper.WithQueue(qc))
	}
	opts = append(opts, exporterhelper.WithTimeout(exporterhelper.TimeoutConfig{Timeout: 0}))
	set := exporter.Settings{ID: component.MustNewID("simexp"), TelemetrySettings: componenttest.NewNopTelemetrySettings(), BuildInfo: component.NewDefaultBuildInfo()}
	exp, err := s.ad.newExp(set, s.be.push, opts...)
	if err != nil {
		panic(err)
	}
	s.exp = exp
	sctx, started := simkit.StartContext(tp)
	if err := exp.Start(sctx, componenttest.NewNopHost()); err != nil {
		panic(err)
	}
	started()
	for i := 0; i < cfg.Prods; i++ {
		s.prods = append(s.prods, &c04Prod{id: i})
	}
	r.Settle()
	flush := time.Duration(cfg.FlushS) * time.Second

	for step := 0; step < cfg.Steps && !r.Failed(); step++ {
		var ch []simkit.Choice
		for _, p := range s.prods {
			if p.task == nil {
				p := p
				ch = append(ch, simkit.Choice{Name: fmt.Sprintf("offer:p%d", p.id), W: 4, Fire: func() { s.offer(p) }})
				break
			}
		}
		for _, id := range s.be.gate.Parked() {
			id := id
			ch = append(ch, simkit.Choice{Name: "ok:" + id, W: 3, Fire: func() { s.be.answer(id, nil) }})
			ch = append(ch, simkit.Choice{Name: "fail:" + id, W: 1, Fire: func() {
				r.Count("fault.backend_error")
				s.be.answer(id, errTransient)
			}})
		}
		ch = append(ch, simkit.Choice{Name: "advance:flush_timeout", W: 2, Fire: func() { time.Sleep(flush) }})
		ch = append(ch, simkit.Choice{Name: "advance:half", W: 1, Fire: func() { time.Sleep(flush / 2) }})
		ev := r.Pick(ch)
		s.observe(ev)
	}
	// quiet phase: faults off, everything answered, time advanced until all producers have returned
	for i := 0; i < 300 && !r.Failed(); i++ {
		if ids := s.be.gate.Parked(); len(ids) > 0 {
			id := ids[0]
			r.Fire("quiet-ok:"+id, func() { s.be.answer(id, nil) })
			s.observe("quiet")
			continue
		}
		busy := false
		for _, p := range s.prods {
			if p.task != nil {
				busy = true
			}
		}
		if !busy {
			break
		}
		r.Fire("quiet-advance", func() { time.Sleep(flush + time.Second) })
		s.observe("quiet")
	}
	if !r.Failed() {
		for _, p := range s.prods {
			if p.task != nil {
				r.Failf("completion", "never", "producer p%d's request %d never completed although every batch was answered and the flush timeout elapsed", p.id, p.reqNo)
			}
		}
	}
	sh := simkit.Go("shutdown", func(t *simkit.Task) { t.Err = exp.Shutdown(context.Background()) })
	for i := 0; i < 100; i++ {
		r.Settle()
		if sh.Done() {
			break
		}
		if ids := s.be.gate.Parked(); len(ids) > 0 {
			s.be.answer(ids[0], nil)
		} else {
			time.Sleep(flush)
		}
	}
	if !sh.Done() {
		r.Failf("liveness", "shutdown", "Shutdown did not return")
		return
	}
	if !r.Failed() {
		s.finalChecks()
	}
	r.Virtual = time.Since(start)
}

func (s *c04Sim) offer(p *c04Prod) {
	sh := gen.DefaultShape
	if s.cfg.Sizer == "bytes" && s.r.Tape.Chance(1, 12) {
		sh.Oversize = 1000
		s.r.Count("probe.oversized_single_item")
	}
	payload := s.ad.gen(s.r.Tape, s.ids, sh)
	if s.cfg.Sizer == "bytes" && s.r.Tape.Chance(1, 3) {
		gen.Enrich(s.r.Tape, payload, false) // fields of every kind and size for the byte accounting
	}
	items := s.ad.items(payload)
	for k, v := range gen.DeepItems(payload) {
		s.sentDeep[k] = v
	}
	s.nreq++
	p.reqNo = s.nreq
	p.offeredAt = s.r.Events
	p.ids = items
	s.reqItems[p.reqNo] = items
	for k, v := range items {
		s.sent[k] = v
		s.owner[k] = p.reqNo
	}
	n := p.reqNo
	s.r.Logf("  request %d: %d items, %d bytes", n, len(items), s.ad.bytes(payload))
	if js := s.ad.json(payload); len(js) < 1500 {
		s.r.Logf("    %s", js)
	}
	p.task = simkit.Go(fmt.Sprintf("p%d", p.id), func(t *simkit.Task) { t.Err = s.exp.Consume(context.Background(), payload) })
}

func (s *c04Sim) unitSize(c *backendCall) int64 {
	if s.cfg.Sizer == "bytes" {
		return int64(c.Bytes)
	}
	return int64(len(c.Items))
}

func (s *c04Sim) observe(ev string) {
	r := s.r
	calls := s.be.snapshot()
	// batch size bound + nothing invented / duplicated so far
	seen := map[string]int{}
	for _, c := range calls {
		var deep map[string]string
		if c.N > s.deepChecked {
			deep = gen.DeepItems(c.Payload) // once per batch
			s.deepChecked = c.N
		}
		for _, id := range sortedKeys(c.Items) {
			fp := c.Items[id]
			want, ok := s.sent[id]
			if !ok {
				r.Failf("conservation", "invented-item", "batch %d contains item %s that was never offered (%s)", c.N, id, fp)
				continue
			}
			if want != fp {
				r.Failf("identity", s.cfg.Signal+":"+strings.Join(gen.DiffFields(want, fp), "+"), "item %s left the batcher with a different context in batch %d: entered as %s, left as %s", id, c.N, want, fp)
			} else if deep != nil && s.sentDeep[id] != "" && deep[id] != s.sentDeep[id] {
				r.Failf("identity", s.cfg.Signal+":content", "item %s left the batcher in batch %d with a content or context that differs from what entered (same resource/scope/schema/metric fingerprint; hash of the complete single-item form %s -> %s)", id, c.N, s.sentDeep[id], deep[id])
			}
			if prev, dup := seen[id]; dup {
				r.Failf("conservation", "duplicated-item", "item %s is in batch %d and in batch %d", id, prev, c.N)
			}
			seen[id] = c.N
		}
		indivisible := len(c.Items) == 1
		if s.ad.units != nil {
			indivisible = s.ad.units(c.Payload) == 1 // profiles: one profile with all its samples
		}
		if s.cfg.Max > 0 && s.unitSize(c) > s.cfg.Max && !indivisible {
			locus := s.cfg.Sizer
			if s.ad.hollow(c.Payload) {
				locus += "/batch-with-empty-containers"
			}
			r.Failf("size-bound", locus, "batch %d has size %d %s > max_size %d and holds %d items: %s", c.N, s.unitSize(c), s.cfg.Sizer, s.cfg.Max, len(c.Items), s.ad.json(c.Payload))
		}
		if len(c.Items) > 1 || s.cfg.Max > 0 {
			r.Nontrivial = true
		}
	}
	// producers that returned
	for _, p := range s.prods {
		if p.task == nil || !p.task.Done() {
			// (liveness of completion is asserted at the end of the quiet phase: a part of the request without
			// items - empty containers - may still sit in the current batch or in a batch in flight)
			continue
		}
		err := p.task.Err
		r.Logf("  p%d request %d returned %s", p.id, p.reqNo, simkit.ShortErr(err))
		failed := false
		for _, id := range sortedKeys(p.ids) {
			bn, ok := seen[id]
			if !ok {
				r.Failf("completion", "early", "request %d completed (err=%v) before its item %s was handed to the export function", p.reqNo, err, id)
				continue
			}
			c := s.be.call(bn)
			if !c.Answered {
				r.Failf("completion", "early", "request %d completed (err=%v) while batch %d holding its item %s is still in flight", p.reqNo, err, bn, id)
			} else if c.Outcome != nil {
				failed = true
			}
		}
		if len(p.ids) == 0 {
			// a request without items cannot be attributed to a batch; nothing to assert about its result
			failed = err != nil
		}
		if failed && err == nil {
			r.Failf("completion", "error-lost", "request %d completed with nil although a batch holding part of it failed", p.reqNo)
		}
		if !failed && err != nil {
			// a part of the request without items (empty containers) may have travelled in a failed batch
			for _, c := range calls {
				if c.Answered && c.Outcome != nil && (len(c.Items) == 0 || s.ad.hollow(c.Payload)) {
					failed = true
					r.Count("probe.itemless_part_in_failed_batch")
				}
			}
		}
		if !failed && err != nil {
			locus := "spurious-error/no-failed-batch-could-hold-it"
			for _, c := range calls {
				if c.Answered && c.Outcome != nil && c.Start >= p.offeredAt {
					locus = "spurious-error/tied-to-failed-batch-without-its-items/" + s.cfg.Sizer
					if s.cfg.Sizer == "items" && s.cfg.Signal == "profiles" {
						// with items only an indivisible unit (a profile) can keep the first flushed batch
						// free of the new request's items; for the divisible signals this stays unexpected
						locus += "/indivisible-profile"
					}
				}
			}
			r.Failf("completion", locus, "request %d completed with %v although no batch holding part of it failed", p.reqNo, err)
		}
		s.reqDone[p.reqNo] = true
		s.reqErr[p.reqNo] = err
		p.task = nil
		p.ids = nil
	}
	inflight := len(s.be.gate.Parked())
	pend := 0
	for _, p := range s.prods {
		if p.task != nil {
			pend++
		}
	}
	r.State(fmt.Sprintf("inflight=%d pending_producers=%d batches=%d", inflight, pend, bucket(len(calls))), evKind(ev))
}

func bucket(n int) int {
	switch {
	case n < 4:
		return n
	case n < 8:
		return 4
	case n < 16:
		return 8
	}
	return 16
}

func (s *c04Sim) finalChecks() {
	got := map[string]string{}
	for _, c := range s.be.snapshot() {
		for id, fp := range c.Items {
			got[id] = fp
		}
	}
	if d := gen.DiffItems(s.sent, got); d != "" {
		ids := make([]string, 0)
		for id := range s.sent {
			if _, ok := got[id]; !ok {
				ids = append(ids, id)
			}
		}
		sort.Strings(ids)
		if len(ids) > 0 {
			s.r.Failf("conservation", "lost-item", "%d items entered the batcher and never left it: %s", len(ids), d)
		}
	}
}

var HarnessC04 = simkit.Harness{
	Prop: "C04", Name: "exp/c04", Run: runC04, StepTimeout: 8e9,
	Real: []string{"exporterhelper.NewLogs/NewTraces/NewMetrics (request types, MergeSplit, sizers)", "queue sender with sending_queue::batch and the legacy WithBatcher path", "default batcher (timer goroutine, flush workers, refCountDone/multiDone)", "in-memory queue with wait_for_result"},
	Stub: []string{"backend (push function parks until the scheduler answers ok / error)", "producers (tasks calling ConsumeX)"},
	Rule: "one run = one tape-drawn (signal, sizer, legacy?, min_size, max_size, flush_timeout) accepted by Validate(), generated payloads with unique item ids (0-3 resources x 0-3 scopes x 0-3 metrics x 0-4 items, schema URLs, duplicate resources, occasionally one 1000-byte item) offered by 1-3 concurrent producers, and a schedule of offer / batch answer ok|error / clock advance events; distinct = distinct event-log hash; non-trivial = some batch held >1 item or a max_size was configured",
}

func sortedKeys(m map[string]string) []string {
	out := make([]string, 0, len(m))
	for k := range m {
		out = append(out, k)
	}
	sort.Strings(out)
	return out
}
