package verifsim

import (
	"context"
	"fmt"
	"sync"

	"go.opentelemetry.io/collector/component"
	"go.opentelemetry.io/collector/consumer"
	"go.opentelemetry.io/collector/consumer/consumererror"
	"go.opentelemetry.io/collector/exporter"
	"go.opentelemetry.io/collector/exporter/exporterhelper"
	"go.opentelemetry.io/collector/exporter/exporterhelper/xexporterhelper"
	"go.opentelemetry.io/collector/exporter/xexporter"
	"go.opentelemetry.io/collector/pdata/pcommon"
	"go.opentelemetry.io/collector/pdata/plog"
	"go.opentelemetry.io/collector/pdata/pmetric"
	"go.opentelemetry.io/collector/pdata/pprofile"
	"go.opentelemetry.io/collector/pdata/ptrace"
	"verif.local/simkit"
	"verif.local/simkit/gen"
)

// sigAdapter hides the signal behind `any` payloads so that one harness serves logs, traces and metrics.
type sigAdapter struct {
	name   string
	gen    func(tp *simkit.Tape, ids *gen.IDs, sh gen.Shape) any
	items  func(p any) map[string]string
	bytes  func(p any) int
	clone  func(p any) any
	newExp func(set exporter.Settings, push func(context.Context, any) error, opts ...exporterhelper.Option) (simExporter, error)
	// partial builds a partial-failure error that names the subset of p whose ids are in keep as undelivered
	partial func(p any, keep map[string]bool) (error, int)
	empty   func() any
	json    func(p any) string
	// hollow reports whether the payload has a container without items (resource without scopes, scope without
	// items, metric without data points)
	hollow func(p any) bool
	// units counts the indivisible units of a payload when they are coarser than items (profiles: a profile's
	// samples cannot be separated); nil = items
	units func(p any) int
	// wire form <-> payload, and the helper's own request encoding (wire form <-> Request) for direct MergeSplit calls
	marshal   func(p any) []byte
	unmarshal func(b []byte) any
	qbs       func() exporterhelper.QueueBatchSettings
}

type simExporter interface {
	component.Component
	Consume(ctx context.Context, p any) error
	Caps() consumer.Capabilities
}

type logsExp struct{ exporter.Logs }

func (e logsExp) Consume(ctx context.Context, p any) error { return e.ConsumeLogs(ctx, p.(plog.Logs)) }
func (e logsExp) Caps() consumer.Capabilities              { return e.Capabilities() }

type tracesExp struct{ exporter.Traces }

func (e tracesExp) Consume(ctx context.Context, p any) error {
	return e.ConsumeTraces(ctx, p.(ptrace.Traces))
}
func (e tracesExp) Caps() consumer.Capabilities { return e.Capabilities() }

type metricsExp struct{ exporter.Metrics }

func (e metricsExp) Consume(ctx context.Context, p any) error {
	return e.ConsumeMetrics(ctx, p.(pmetric.Metrics))
}
func (e metricsExp) Caps() consumer.Capabilities { return e.Capabilities() }

var logsAdapter = &sigAdapter{
	name:  "logs",
	gen:   func(tp *simkit.Tape, ids *gen.IDs, sh gen.Shape) any { return gen.Logs(tp, ids, sh) },
	items: func(p any) map[string]string { return gen.LogItems(p.(plog.Logs)) },
	bytes: func(p any) int { return (&plog.ProtoMarshaler{}).LogsSize(p.(plog.Logs)) },
	clone: func(p any) any { d := plog.NewLogs(); p.(plog.Logs).CopyTo(d); return d },
	empty: func() any { return plog.NewLogs() },
	json:  func(p any) string { b, _ := (&plog.JSONMarshaler{}).MarshalLogs(p.(plog.Logs)); return string(b) },
	newExp: func(set exporter.Settings, push func(context.Context, any) error, opts ...exporterhelper.Option) (simExporter, error) {
		e, err := exporterhelper.NewLogs(context.Background(), set, struct{}{}, func(ctx context.Context, ld plog.Logs) error { return push(ctx, ld) }, opts...)
		if err != nil {
			return nil, err
		}
		return logsExp{e}, nil
	},
	partial: func(p any, keep map[string]bool) (error, int) {
		d := plog.NewLogs()
		p.(plog.Logs).CopyTo(d)
		d.ResourceLogs().RemoveIf(func(rl plog.ResourceLogs) bool {
			rl.ScopeLogs().RemoveIf(func(sl plog.ScopeLogs) bool {
				sl.LogRecords().RemoveIf(func(lr plog.LogRecord) bool {
					v, ok := lr.Attributes().Get(gen.IDKey)
					return !ok || !keep[v.Str()]
				})
				return sl.LogRecords().Len() == 0
			})
			return rl.ScopeLogs().Len() == 0
		})
		return consumererror.NewLogs(errTransient, d), d.LogRecordCount()
	},
}

var tracesAdapter = &sigAdapter{
	name:  "traces",
	gen:   func(tp *simkit.Tape, ids *gen.IDs, sh gen.Shape) any { return gen.Traces(tp, ids, sh) },
	items: func(p any) map[string]string { return gen.SpanItems(p.(ptrace.Traces)) },
	bytes: func(p any) int { return (&ptrace.ProtoMarshaler{}).TracesSize(p.(ptrace.Traces)) },
	clone: func(p any) any { d := ptrace.NewTraces(); p.(ptrace.Traces).CopyTo(d); return d },
	empty: func() any { return ptrace.NewTraces() },
	json: func(p any) string {
		b, _ := (&ptrace.JSONMarshaler{}).MarshalTraces(p.(ptrace.Traces))
		return string(b)
	},
	newExp: func(set exporter.Settings, push func(context.Context, any) error, opts ...exporterhelper.Option) (simExporter, error) {
		e, err := exporterhelper.NewTraces(context.Background(), set, struct{}{}, func(ctx context.Context, td ptrace.Traces) error { return push(ctx, td) }, opts...)
		if err != nil {
			return nil, err
		}
		return tracesExp{e}, nil
	},
	partial: func(p any, keep map[string]bool) (error, int) {
		d := ptrace.NewTraces()
		p.(ptrace.Traces).CopyTo(d)
		d.ResourceSpans().RemoveIf(func(rs ptrace.ResourceSpans) bool {
			rs.ScopeSpans().RemoveIf(func(ss ptrace.ScopeSpans) bool {
				ss.Spans().RemoveIf(func(sp ptrace.Span) bool {
					v, ok := sp.Attributes().Get(gen.IDKey)
					return !ok || !keep[v.Str()]
				})
				return ss.Spans().Len() == 0
			})
			return rs.ScopeSpans().Len() == 0
		})
		return consumererror.NewTraces(errTransient, d), d.SpanCount()
	},
}

var metricsAdapter = &sigAdapter{
	name:  "metrics",
	gen:   func(tp *simkit.Tape, ids *gen.IDs, sh gen.Shape) any { return gen.Metrics(tp, ids, sh) },
	items: func(p any) map[string]string { return gen.PointItems(p.(pmetric.Metrics)) },
	bytes: func(p any) int { return (&pmetric.ProtoMarshaler{}).MetricsSize(p.(pmetric.Metrics)) },
	clone: func(p any) any { d := pmetric.NewMetrics(); p.(pmetric.Metrics).CopyTo(d); return d },
	empty: func() any { return pmetric.NewMetrics() },
	json: func(p any) string {
		b, _ := (&pmetric.JSONMarshaler{}).MarshalMetrics(p.(pmetric.Metrics))
		return string(b)
	},
	newExp: func(set exporter.Settings, push func(context.Context, any) error, opts ...exporterhelper.Option) (simExporter, error) {
		e, err := exporterhelper.NewMetrics(context.Background(), set, struct{}{}, func(ctx context.Context, md pmetric.Metrics) error { return push(ctx, md) }, opts...)
		if err != nil {
			return nil, err
		}
		return metricsExp{e}, nil
	},
	partial: func(p any, keep map[string]bool) (error, int) {
		// the undelivered subset: the data points named in keep, of whatever type, inside their metric / scope / resource
		d := pmetric.NewMetrics()
		p.(pmetric.Metrics).CopyTo(d)
		drop := func(attrs pcommon.Map) bool {
			v, ok := attrs.Get(gen.IDKey)
			return !ok || !keep[v.Str()]
		}
		d.ResourceMetrics().RemoveIf(func(rm pmetric.ResourceMetrics) bool {
			rm.ScopeMetrics().RemoveIf(func(sm pmetric.ScopeMetrics) bool {
				sm.Metrics().RemoveIf(func(m pmetric.Metric) bool {
					switch m.Type() {
					case pmetric.MetricTypeGauge:
						m.Gauge().DataPoints().RemoveIf(func(dp pmetric.NumberDataPoint) bool { return drop(dp.Attributes()) })
						return m.Gauge().DataPoints().Len() == 0
					case pmetric.MetricTypeSum:
						m.Sum().DataPoints().RemoveIf(func(dp pmetric.NumberDataPoint) bool { return drop(dp.Attributes()) })
						return m.Sum().DataPoints().Len() == 0
					case pmetric.MetricTypeHistogram:
						m.Histogram().DataPoints().RemoveIf(func(dp pmetric.HistogramDataPoint) bool { return drop(dp.Attributes()) })
						return m.Histogram().DataPoints().Len() == 0
					case pmetric.MetricTypeExponentialHistogram:
						m.ExponentialHistogram().DataPoints().RemoveIf(func(dp pmetric.ExponentialHistogramDataPoint) bool { return drop(dp.Attributes()) })
						return m.ExponentialHistogram().DataPoints().Len() == 0
					case pmetric.MetricTypeSummary:
						m.Summary().DataPoints().RemoveIf(func(dp pmetric.SummaryDataPoint) bool { return drop(dp.Attributes()) })
						return m.Summary().DataPoints().Len() == 0
					}
					return true
				})
				return sm.Metrics().Len() == 0
			})
			return rm.ScopeMetrics().Len() == 0
		})
		return consumererror.NewMetrics(errTransient, d), d.DataPointCount()
	},
}

type profilesExp struct{ xexporter.Profiles }

func (e profilesExp) Consume(ctx context.Context, p any) error {
	return e.ConsumeProfiles(ctx, p.(pprofile.Profiles))
}
func (e profilesExp) Caps() consumer.Capabilities { return e.Capabilities() }

// profilesAdapter is used by C04 only (profiles have no obsreport counters and no partial-failure error type).
var profilesAdapter = &sigAdapter{
	name:  "profiles",
	gen:   func(tp *simkit.Tape, ids *gen.IDs, sh gen.Shape) any { return gen.Profiles(tp, ids, sh) },
	items: func(p any) map[string]string { return gen.SampleItems(p.(pprofile.Profiles), "i") },
	bytes: func(p any) int { return (&pprofile.ProtoMarshaler{}).ProfilesSize(p.(pprofile.Profiles)) },
	clone: func(p any) any { d := pprofile.NewProfiles(); p.(pprofile.Profiles).CopyTo(d); return d },
	empty: func() any { return pprofile.NewProfiles() },
	json: func(p any) string {
		b, _ := (&pprofile.JSONMarshaler{}).MarshalProfiles(p.(pprofile.Profiles))
		return string(b)
	},
	newExp: func(set exporter.Settings, push func(context.Context, any) error, opts ...exporterhelper.Option) (simExporter, error) {
		e, err := xexporterhelper.NewProfilesExporter(context.Background(), set, struct{}{}, func(ctx context.Context, pd pprofile.Profiles) error { return push(ctx, pd) }, opts...)
		if err != nil {
			return nil, err
		}
		return profilesExp{e}, nil
	},
	units: func(p any) int {
		pd := p.(pprofile.Profiles)
		n := 0
		for i := 0; i < pd.ResourceProfiles().Len(); i++ {
			for j := 0; j < pd.ResourceProfiles().At(i).ScopeProfiles().Len(); j++ {
				n += pd.ResourceProfiles().At(i).ScopeProfiles().At(j).Profiles().Len()
			}
		}
		return n
	},
	hollow: func(p any) bool {
		pd := p.(pprofile.Profiles)
		for i := 0; i < pd.ResourceProfiles().Len(); i++ {
			rp := pd.ResourceProfiles().At(i)
			if rp.ScopeProfiles().Len() == 0 {
				return true
			}
			for j := 0; j < rp.ScopeProfiles().Len(); j++ {
				sp := rp.ScopeProfiles().At(j)
				if sp.Profiles().Len() == 0 {
					return true
				}
				for k := 0; k < sp.Profiles().Len(); k++ {
					if sp.Profiles().At(k).Sample().Len() == 0 {
						return true
					}
				}
			}
		}
		return false
	},
}

var adapters = []*sigAdapter{logsAdapter, tracesAdapter, metricsAdapter}

func init() {
	logsAdapter.marshal = func(p any) []byte { b, _ := (&plog.ProtoMarshaler{}).MarshalLogs(p.(plog.Logs)); return b }
	logsAdapter.unmarshal = func(b []byte) any { x, _ := (&plog.ProtoUnmarshaler{}).UnmarshalLogs(b); return x }
	logsAdapter.qbs = exporterhelper.NewLogsQueueBatchSettings
	tracesAdapter.marshal = func(p any) []byte { b, _ := (&ptrace.ProtoMarshaler{}).MarshalTraces(p.(ptrace.Traces)); return b }
	tracesAdapter.unmarshal = func(b []byte) any { x, _ := (&ptrace.ProtoUnmarshaler{}).UnmarshalTraces(b); return x }
	tracesAdapter.qbs = exporterhelper.NewTracesQueueBatchSettings
	metricsAdapter.marshal = func(p any) []byte {
		b, _ := (&pmetric.ProtoMarshaler{}).MarshalMetrics(p.(pmetric.Metrics))
		return b
	}
	metricsAdapter.unmarshal = func(b []byte) any { x, _ := (&pmetric.ProtoUnmarshaler{}).UnmarshalMetrics(b); return x }
	metricsAdapter.qbs = exporterhelper.NewMetricsQueueBatchSettings
	profilesAdapter.marshal = func(p any) []byte {
		b, _ := (&pprofile.ProtoMarshaler{}).MarshalProfiles(p.(pprofile.Profiles))
		return b
	}
	profilesAdapter.unmarshal = func(b []byte) any { x, _ := (&pprofile.ProtoUnmarshaler{}).UnmarshalProfiles(b); return x }
	profilesAdapter.qbs = xexporterhelper.NewProfilesQueueBatchSettings
	logsAdapter.hollow = func(p any) bool {
		ld := p.(plog.Logs)
		for i := 0; i < ld.ResourceLogs().Len(); i++ {
			rl := ld.ResourceLogs().At(i)
			if rl.ScopeLogs().Len() == 0 {
				return true
			}
			for j := 0; j < rl.ScopeLogs().Len(); j++ {
				if rl.ScopeLogs().At(j).LogRecords().Len() == 0 {
					return true
				}
			}
		}
		return false
	}
	tracesAdapter.hollow = func(p any) bool {
		td := p.(ptrace.Traces)
		for i := 0; i < td.ResourceSpans().Len(); i++ {
			rs := td.ResourceSpans().At(i)
			if rs.ScopeSpans().Len() == 0 {
				return true
			}
			for j := 0; j < rs.ScopeSpans().Len(); j++ {
				if rs.ScopeSpans().At(j).Spans().Len() == 0 {
					return true
				}
			}
		}
		return false
	}
	metricsAdapter.hollow = func(p any) bool {
		md := p.(pmetric.Metrics)
		for i := 0; i < md.ResourceMetrics().Len(); i++ {
			rm := md.ResourceMetrics().At(i)
			if rm.ScopeMetrics().Len() == 0 {
				return true
			}
			for j := 0; j < rm.ScopeMetrics().Len(); j++ {
				sm := rm.ScopeMetrics().At(j)
				if sm.Metrics().Len() == 0 {
					return true
				}
				for k := 0; k < sm.Metrics().Len(); k++ {
					m := sm.Metrics().At(k)
					n := 0
					switch m.Type() {
					case pmetric.MetricTypeGauge:
						n = m.Gauge().DataPoints().Len()
					case pmetric.MetricTypeSum:
						n = m.Sum().DataPoints().Len()
					case pmetric.MetricTypeHistogram:
						n = m.Histogram().DataPoints().Len()
					case pmetric.MetricTypeExponentialHistogram:
						n = m.ExponentialHistogram().DataPoints().Len()
					case pmetric.MetricTypeSummary:
						n = m.Summary().DataPoints().Len()
					}
					if n == 0 {
						return true
					}
				}
			}
		}
		return false
	}
}

// backend is the simulated export destination: every call is recorded and parks until the scheduler answers.
type backendCall struct {
	N        int
	Items    map[string]string
	Bytes    int
	Payload  any // deep copy taken at call time
	Start    int // event index at which the call began
	Answered bool
	Outcome  error
	CtxErr   error
	At       int64 // virtual unix nanos at call time
	DoneCh   <-chan struct{}
	Gate     string
	Kept     map[string]bool // for a partial-failure answer: the items named as undelivered
}

type backend struct {
	mu    sync.Mutex
	ad    *sigAdapter
	gate  *simkit.Gate
	calls []*backendCall
	now   func() int64
	evNow func() int
	// reject is consulted before parking: a non-nil result answers the call immediately (used for zombies)
	reject  func() error
	seenKey map[string]int
	byGate  map[string]*backendCall
	// deaf, when set, says whether this call ignores its context while parked: a backend client that notices a
	// cancelled attempt only when it has its own answer ready (and then reports that answer, not the context's error)
	deaf func(c *backendCall) bool
}

func (b *backend) byGateID(id string) *backendCall {
	b.mu.Lock()
	defer b.mu.Unlock()
	return b.byGate[id]
}

func newBackend(ad *sigAdapter, now func() int64) *backend {
	return &backend{ad: ad, gate: simkit.NewGate(), now: now}
}

func (b *backend) push(ctx context.Context, p any) error {
	b.mu.Lock()
	c := &backendCall{N: len(b.calls) + 1, Items: b.ad.items(p), Bytes: b.ad.bytes(p), Payload: b.ad.clone(p), At: b.now(), DoneCh: ctx.Done()}
	if b.evNow != nil {
		c.Start = b.evNow()
	}
	b.calls = append(b.calls, c)
	// The gate id is a stable identity (smallest item id + how many calls carried it so far), never the arrival
	// order: with several consumers two calls may begin in the same step in either order.
	key := "empty"
	for id := range c.Items {
		if key == "empty" || id < key {
			key = id
		}
	}
	if b.seenKey == nil {
		b.seenKey = map[string]int{}
		b.byGate = map[string]*backendCall{}
	}
	b.seenKey[key]++
	c.Gate = fmt.Sprintf("call:%s#%d", key, b.seenKey[key])
	b.byGate[c.Gate] = c
	rej := b.reject
	done := ctx.Done()
	if b.deaf != nil && b.deaf(c) {
		done = nil
	}
	b.mu.Unlock()
	if rej != nil {
		if err := rej(); err != nil {
			return err
		}
	}
	v, ok := b.gate.ParkCtx(c.Gate, done)
	if !ok {
		b.mu.Lock()
		c.Answered = true
		c.CtxErr = ctx.Err()
		c.Outcome = ctx.Err()
		b.mu.Unlock()
		return ctx.Err()
	}
	if v == nil {
		return nil
	}
	return v.(error)
}

func (b *backend) call(n int) *backendCall {
	b.mu.Lock()
	defer b.mu.Unlock()
	if n >= 1 && n <= len(b.calls) {
		return b.calls[n-1]
	}
	return nil
}

func (b *backend) snapshot() []*backendCall {
	b.mu.Lock()
	defer b.mu.Unlock()
	return append([]*backendCall(nil), b.calls...)
}

// answer releases the parked call with the given outcome.
func (b *backend) answer(gateID string, outcome error) *backendCall {
	c := b.byGateID(gateID)
	b.mu.Lock()
	c.Answered = true
	c.Outcome = outcome
	b.mu.Unlock()
	b.gate.Release(gateID, outcome)
	return c
}
