package verifsim

import (
	"reflect"
	"strings"
	"sync/atomic"
	"unsafe"
)

// lockProbe answers "is this mutex free right now?" for the mutex field `mu` of the first value of a struct type whose
// name starts with typePrefix, reachable from root through pointers, interfaces and (unexported) struct fields. It
// reads the first word of the sync.Mutex (its state; bit 0 = locked). When nothing is found the probe is nil and the
// harness simply has no such schedule points - never a wrong answer.
//
// Use: a storage operation issued while the queue's mutex is FREE is, by construction, issued outside the queue's
// critical sections, so the calling goroutine can be parked there without anybody queueing behind a lock it holds.
type lockProbe struct{ state *int32 }

func (p *lockProbe) free() bool {
	return p != nil && p.state != nil && atomic.LoadInt32(p.state)&1 == 0
}

func findLockProbe(root any, typePrefix string) *lockProbe {
	seen := map[uintptr]bool{}
	var found *int32
	var walk func(v reflect.Value, depth int)
	walk = func(v reflect.Value, depth int) {
		if found != nil || depth > 30 || !v.IsValid() {
			return
		}
		switch v.Kind() {
		case reflect.Ptr:
			if v.IsNil() || seen[v.Pointer()] {
				return
			}
			seen[v.Pointer()] = true
			walk(v.Elem(), depth+1)
		case reflect.Interface:
			if !v.IsNil() {
				walk(v.Elem(), depth+1)
			}
		case reflect.Struct:
			t := v.Type()
			if strings.HasPrefix(t.Name(), typePrefix) && v.CanAddr() {
				if f, ok := t.FieldByName("mu"); ok && f.Type.String() == "sync.Mutex" {
					found = (*int32)(unsafe.Pointer(v.UnsafeAddr() + f.Offset))
					return
				}
			}
			if !v.CanAddr() {
				// a struct held in an interface: copy it to something addressable to look inside
				c := reflect.New(t).Elem()
				c.Set(v)
				v = c
			}
			for i := 0; i < t.NumField(); i++ {
				f := v.Field(i)
				switch f.Kind() {
				case reflect.Ptr, reflect.Interface, reflect.Struct, reflect.Slice:
					walk(reflect.NewAt(f.Type(), unsafe.Pointer(f.UnsafeAddr())).Elem(), depth+1)
				}
			}
		case reflect.Slice:
			for i := 0; i < v.Len() && i < 8; i++ {
				walk(v.Index(i), depth+1)
			}
		}
	}
	walk(reflect.ValueOf(root), 0)
	if found == nil {
		return nil
	}
	return &lockProbe{state: found}
}
