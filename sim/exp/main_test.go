package verifsim

import (
	"os"
	"os/signal"
	"testing"

	"verif.local/simkit"
)

func TestMain(m *testing.M) {
	// start os/signal's loop goroutine outside any bubble
	c := make(chan os.Signal, 1)
	signal.Notify(c, os.Interrupt)
	signal.Stop(c)
	os.Exit(m.Run())
}

func TestC02(t *testing.T) { simkit.Main(t, HarnessC02) }
func TestC01(t *testing.T) { simkit.Main(t, HarnessC01) }
func TestC04(t *testing.T) { simkit.Main(t, HarnessC04) }
func TestC03(t *testing.T) { simkit.Main(t, HarnessC03) }
func TestC19(t *testing.T) { simkit.Main(t, HarnessC19) }
func TestC05(t *testing.T) { simkit.Main(t, HarnessC05) }
