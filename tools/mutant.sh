#!/bin/bash
# usage: tools/mutant.sh <seeded-id> <PROP> [extra check args]  -- apply a seeded change to /repo, run the check, undo.
id=$1; prop=$2; shift 2
patch=/verif/seeded/$id/patch.diff
[ -f "$patch" ] || { echo "no $patch"; exit 2; }
if ! git -C /repo diff --quiet; then echo "/repo is dirty"; exit 2; fi
git -C /repo apply "$patch" || exit 2
cd /verif && ./check $prop "$@" > /verif/.work/mutant-$id-$prop.out 2>&1; rc=$?
git -C /repo checkout -- . 
echo "== $id vs $prop: rc=$rc"; grep -m2 -A2 "^VIOLATION\|^INFRA" /verif/.work/mutant-$id-$prop.out | head -8
exit $rc
