#!/bin/bash
# usage: tools/mutant.sh <seeded-id> <PROP> [extra check args]  -- apply a seeded change to /repo, run the check, undo.
id=$1; prop=$2; shift 2
patch=/verif/seeded/$id/patch.diff
[ -f "$patch" ] || { echo "no $patch"; exit 2; }
if ! git -C /repo diff --quiet; then echo "/repo is dirty"; exit 2; fi
git -C /repo apply "$patch" || exit 2
# the evidence file belongs to runs on the unchanged tree: keep it across the mutant run
cp /verif/evidence/$prop.json /verif/.work/evidence-$prop.keep 2>/dev/null
cd /verif && ./check $prop "$@" > /verif/.work/mutant-$id-$prop.out 2>&1; rc=$?
git -C /repo checkout -- . 
[ -f /verif/.work/evidence-$prop.keep ] && mv /verif/.work/evidence-$prop.keep /verif/evidence/$prop.json
echo "== $id vs $prop: rc=$rc"; grep -m2 -A2 "^VIOLATION\|^INFRA" /verif/.work/mutant-$id-$prop.out | head -8
exit $rc
