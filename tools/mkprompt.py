#!/usr/bin/env python3
# usage: tools/mkprompt.py <PROP> <letter>   -> writes /tmp/prompts/<PROP>-<letter>.txt and prints its path
# The prompt holds: the general brief, the "hard" brief, the property's text (title, statement, quantifier, anchors),
# one sentence per seeded change that already exists for the property (to avoid duplicates) and the name of the
# scratch worktree. Nothing else of /verif is shown to the sub-agent.
import json, os, sys, glob
prop, letter = sys.argv[1], sys.argv[2]
V = '/verif'
P = {json.loads(l)['id']: json.loads(l) for l in open(V + '/properties.jsonl')}[prop]
brief = open(V + '/tools/mutant-brief.txt').read()
hard = open(V + '/tools/mutant-brief-hard.txt').read()
have = []
for m in sorted(glob.glob(V + '/seeded/*/meta.json')):
    d = json.load(open(m))
    props = [d.get('property')] + list(d.get('also_breaks', []))
    if prop in props:
        have.append('- ' + d['breaks'])
wt = '/tmp/mut-%s-%s' % (prop, letter)
extra = ''
if len(sys.argv) > 3:
    extra = '\nHINT (where earlier changes did NOT go; prefer such places):\n' + sys.argv[3] + '\n'
txt = brief + '\n' + hard + '\n\nPROPERTY ' + prop + ' - ' + P['title'] + '\n' + P['statement'] + '\n\nIt must hold ' + P['quantifier']['text'] + \
    '.\n\nCode the property is anchored in:\n' + json.dumps(P['anchors'], indent=1) + \
    '\n\nChanges that ALREADY EXIST for this property (yours must be a different one - a different mechanism, preferably in a different function or file):\n' + \
    '\n'.join(have) + '\n' + extra + '\nYour scratch worktree directory: ' + wt + '\n'
os.makedirs('/tmp/prompts', exist_ok=True)
out = '/tmp/prompts/%s-%s.txt' % (prop, letter)
open(out, 'w').write(txt)
print(out, len(txt))
