#!/opt/veriftools/pyvenv/bin/python
import json, jsonschema, sys, glob
m=json.load(open('/verif/MANIFEST.json')); jsonschema.validate(m, json.load(open('/root/.vp/MANIFEST.schema.json'))); print("manifest valid:", len(m['checks']), "checks")
sch=json.load(open('/root/.vp/EVIDENCE.schema.json'))
for p in sorted(glob.glob('/verif/evidence/*.json')):
    e=json.load(open(p)); jsonschema.validate(e, sch); print("evidence valid", p, e['tier'], e['coverage'].get('evaluations'), e['coverage'].get('distinct_nontrivial'), 'viol', e.get('violations'))
ids=set()
for l in open('/verif/properties.jsonl'):
    ids.add(json.loads(l)['id'])
claimed={c['property_id'] for c in m['checks']}; na={n['property_id'] for n in m.get('not_applicable',[])}
assert claimed|na==ids and not (claimed&na), (ids-claimed-na, claimed&na)
print("all properties accounted for")
