#!/bin/bash
# usage: tools/regress.sh [pattern]  -- applies every seeded change (matching pattern) to /repo, runs the quick check of its
# property (or of the property named by check_with in its meta.json), reverts; prints one line per change. A change whose meta.json says NOT DETECTED is expected to pass (rc=0).
cd /verif
for d in seeded/${1:-*}/; do
  id=$(basename $d)
  [ -f $d/patch.diff ] || continue
  prop=$(python3 -c "import json;m=json.load(open('$d/meta.json'));print(m.get('check_with',m['property']))")
  expect=1; grep -q "NOT DETECTED" $d/meta.json && expect=0
  out=$(tools/mutant.sh $id $prop 2>&1 | grep -v "^KNOWN")
  rc=$(echo "$out" | grep -o "rc=[0-9]*" | head -1 | cut -d= -f2)
  key=$(echo "$out" | grep "class|locus" | head -1 | sed 's/.*class|locus: //')
  flag=OK; [ "$rc" != "$expect" ] && flag=UNEXPECTED
  echo "$flag $id $prop rc=$rc $key"
done
