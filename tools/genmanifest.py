#!/usr/bin/env python3
"""Regenerate MANIFEST.json from tools/props.py (checks) and tools/na.py (not applicable)."""
import json, os, subprocess, sys
VERIF = os.path.dirname(os.path.dirname(os.path.abspath(__file__)))
sys.path.insert(0, os.path.join(VERIF, "tools"))
from props import PROPS
from na import NOT_APPLICABLE, HOOK_COMMITS, NOTES

BASELINE_CMD = "for m in $(cat /w/out/gomods.txt); do MF=$(cd /repo/$m && . /w/out/goenv.sh && gomodflag); (cd /repo/$m && go test $MF -json -vet=off -count=1 -timeout 25m ./...); done"

def main():
    checks = []
    for pid in sorted(PROPS):
        P = PROPS[pid]
        if not P.get("registered", True):
            continue
        checks.append({
            "property_id": pid,
            "quick_cmd": "./check %s --tier quick" % pid,
            "thorough_cmd": "./check %s --tier thorough" % pid,
            "evidence_file": "/verif/evidence/%s.json" % pid,
            "replay_cmd_template": "./check replay {path}",
            "engine": P["mod"],
            "level_claimed": {"category": P["level"], "text": P["level_text"], "design_ref": P.get("design_ref", "DESIGN.md section 5, " + pid)},
            "level_note": P["level_note"],
            "technique": P["technique"],
        })
    m = {
        "version": 1,
        "setup_cmd": "./check setup",
        "hooks": {
            "guard": "verif (Go build tag)",
            "enable": "harness test binaries are built with `go1.26.8 test -tags verif -c` from modules whose go.mod replaces every module of /repo by its directory. Not a change to /repo: at build time tools/lockinst.py writes copies of the sources of exporterhelper/internal/queuebatch and processor/batchprocessor with a yield call inserted before every mutex acquisition into a temporary directory and passes them with `-overlay` (for the batch processor the overlay also adds a tag-guarded hook file to the package; harness files referring to it are behind the `lockinst` tag; in the same way `verifBeforeGC()` is inserted before the memory limiter's call of its GC function and a hook file is added to internal/memorylimiter, so that a simulated collection can take virtual time); the directory is removed after the build",
            "baseline_off_cmd": BASELINE_CMD,
            "source_commits": HOOK_COMMITS,
            "add_only": True,
        },
        "engines": [
            {"name": "exp", "path": "/verif/sim/exp", "serves_properties": sorted(p for p in PROPS if PROPS[p]["mod"] == "exp" and PROPS[p].get("registered", True)),
             "kind_free_text": "deterministic simulation (testing/synctest bubble, tape-driven event scheduler, simulated disk/backend/clock) of the exporter helper: queues, batcher, retry/timeout senders, obsreport"},
            {"name": "svc", "path": "/verif/sim/svc", "serves_properties": sorted(p for p in PROPS if PROPS[p]["mod"] == "svc" and PROPS[p].get("registered", True)),
             "kind_free_text": "deterministic simulation of service graph / collector run loop / processors / OTLP hop with instrumented stub components"},
        ],
        "checks": checks,
        "not_applicable": NOT_APPLICABLE + [{"property_id": p, "reason": PROPS[p].get("unregistered_reason", "harness not finished yet")} for p in sorted(PROPS) if not PROPS[p].get("registered", True)],
        "notes": NOTES,
    }
    with open(os.path.join(VERIF, "MANIFEST.json"), "w") as f:
        json.dump(m, f, indent=1)
    print("MANIFEST.json: %d checks, %d not applicable" % (len(checks), len(m["not_applicable"])))

if __name__ == "__main__":
    main()
