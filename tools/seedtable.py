#!/usr/bin/env python3
# prints the markdown table of seeded/*/meta.json for DESIGN.md §10.7
import json,glob,os
rows=[]
for m in sorted(glob.glob('/verif/seeded/*/meta.json')):
    d=json.load(open(m))
    det=d.get('detected_by',[])
    det='; '.join(det) if isinstance(det,list) else str(det)
    org='fix reverse' if d['id'].startswith('F-') else 'sub-agent'
    rows.append((d['id'],d['property'],org,d.get('breaks','').replace('|','\\|'),det.replace('|','\\|')))
print('| seeded change | prop | origin | what it breaks | caught by |')
print('|---|---|---|---|---|')
for r in rows: print('| `%s` | %s | %s | %s | %s |'%r)
