#!/usr/bin/env python3
# usage: tools/replaydiff.py <replay.json>  -- structural diff of the "sent ...; received ..." JSON in a violation message
import json,sys
d=json.load(open(sys.argv[1]))
v=d.get('violation')
if not v: sys.exit("no violation in file")
s=v['msg']
if '; sent ' not in s: print(s[:800]); sys.exit()
a=s.split('; sent ')[1]; sent,recv=a.split('; received ')
def walk(x,y,path=''):
    if type(x)!=type(y): print(path,'TYPE',x,y); return
    if isinstance(x,dict):
        for k in sorted(set(x)|set(y)):
            if k not in x: print(path+'/'+k,'only received',y[k])
            elif k not in y: print(path+'/'+k,'only sent',x[k])
            else: walk(x[k],y[k],path+'/'+k)
    elif isinstance(x,list):
        if len(x)!=len(y): print(path,'LEN',len(x),len(y))
        for i,(p,q) in enumerate(zip(x,y)): walk(p,q,path+'[%d]'%i)
    elif x!=y: print(path,x,'!=',y)
walk(json.loads(sent),json.loads(recv.strip()))
print(d['sample'])
