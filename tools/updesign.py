#!/usr/bin/env python3
# regenerates the table of DESIGN.md section 10.7 from seeded/*/meta.json (tools/seedtable.py)
import subprocess, re
p = '/verif/DESIGN.md'
s = open(p).read()
tab = subprocess.run(['python3', '/verif/tools/seedtable.py'], capture_output=True, text=True).stdout
i = s.index('| seeded change | prop | origin |')
j = s.index('### 10.8')
s = s[:i] + tab + '\n' + s[j:]
open(p, 'w').write(s)
print('table rows:', tab.count('\n') - 2)
