#!/bin/bash
# usage: tools/adopt.sh <worktree> <seeded-id> <PROP> <demo-package-dir-relative-to-repo> [check args]
# Verifies a sub-agent's seeded change in its scratch worktree (existing tests pass with it, demo fails with / passes
# without), stores it under seeded/<id>/, runs the check against it in /repo, reverts, removes the worktree.
wt=$1; id=$2; prop=$3; pkg=$4; shift 4
export GOFLAGS=-mod=mod GOPROXY=off GOSUMDB=off
m=$wt/_mutant
[ -f $m/patch.diff ] || { echo "no $m/patch.diff"; exit 2; }
mkdir -p /verif/seeded/$id
cp $m/patch.diff /verif/seeded/$id/patch.diff
cp $m/demo_test.go /verif/seeded/$id/demo_test.go.txt 2>/dev/null
cp $m/notes.md /verif/seeded/$id/notes.md 2>/dev/null
cd $wt && git checkout -q -- . ; git clean -fdq -e _mutant
git apply $m/patch.diff || { echo "patch does not apply on clean worktree"; exit 2; }
cp $m/demo_test.go $wt/$pkg/zz_demo_test.go
name=$(grep -o 'func Test[A-Za-z0-9_]*' $m/demo_test.go | head -1 | sed 's/func //')
( cd $wt/$pkg && go test -count=1 -run "^$name\$" . > /tmp/adopt-with.out 2>&1 ); with=$?
git apply -R $m/patch.diff
( cd $wt/$pkg && go test -count=1 -run "^$name\$" . > /tmp/adopt-without.out 2>&1 ); without=$?
rm -f $wt/$pkg/zz_demo_test.go
git apply $m/patch.diff
( cd $wt/$pkg && go vet . > /tmp/adopt-vet.out 2>&1 && go test -count=1 . > /tmp/adopt-existing.out 2>&1 ); existing=$?
echo "demo with change: rc=$with (want !=0); without: rc=$without (want 0); existing tests of $pkg with change: rc=$existing (want 0)"
tail -3 /tmp/adopt-with.out | head -3
cd /verif
tools/mutant.sh $id $prop "$@"; rc=$?
echo "check rc=$rc"
echo "{\"demo_with_change_rc\": $with, \"demo_without_change_rc\": $without, \"existing_tests_with_change_rc\": $existing, \"check_rc\": $rc, \"demo_package\": \"$pkg\", \"demo_test\": \"$name\"}" > /verif/seeded/$id/verified.json
