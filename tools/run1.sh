#!/bin/bash
# usage: run1.sh <module exp|svc> <TestName> [budget_s] [seed]  -- developer helper: build + one worker
set -e
export GOFLAGS=-mod=mod GOPROXY=off GOSUMDB=off GOTOOLCHAIN=local
mod=$1; tst=$2; budget=${3:-5}; seed=${4:-1}
ov=""
tags=verif
if [ -z "$VERIF_NO_LOCKINST" ]; then
  ovd=$(mktemp -d /tmp/verif-lockinst-XXXXXX); o=$(python3 /verif/tools/lockinst.py /repo $ovd 2>/dev/null); [ -n "$o" ] && ov="-overlay $o" && tags=verif,lockinst
fi
cd /verif/sim/$mod && go1.26.8 test -tags $tags $ov -c -o /verif/.build/$mod.test . 
[ -n "$ovd" ] && rm -rf "$ovd"
mkdir -p /verif/.work
cd /verif
rm -f /verif/.work/$tst.json*
VERIF_SEED=$seed VERIF_BUDGET_S=$budget VERIF_OUT=/verif/.work/$tst.json VERIF_REPLAY_DIR=/verif/.work/replays GODEBUG=randautoseed=0,randseednop=0 timeout 600 .build/$mod.test -test.run "^$tst\$" -test.count=1 2>&1 | tail -${TAILN:-30}
python3 - <<PY
import json,os
p='/verif/.work/$tst.json'
if os.path.exists(p):
    d=json.load(open(p))
    print({k:d.get(k) for k in ['runs','cases','events','wall_s','virtual_s','status','nontrivial_runs','known_hits','violation','replay_path']})
    print('counters',d['counters']); print('states',len(d['states']),'trans',len(d['transitions']))
PY
