#!/usr/bin/env python3
# usage: tools/meta.py <seeded-id> <PROP> "<breaks>" "<needs>" "<detected_by or MISSED>"
import json,sys,os
sid,prop,breaks,needs,det=sys.argv[1:6]
d='/verif/seeded/'+sid
v=json.load(open(d+'/verified.json')) if os.path.exists(d+'/verified.json') else {}
json.dump({"id":sid,"property":prop,"origin":"independent sub-agent given only the property text and a scratch worktree",
 "breaks":breaks,"needs":needs,
 "ran":"tools/adopt.sh (in the agent's scratch worktree: demo fails with the change rc=%s, passes without rc=%s, existing tests of %s pass with it rc=%s); tools/mutant.sh %s %s in /repo -> check rc=%s; /repo reverted" % (v.get('demo_with_change_rc'),v.get('demo_without_change_rc'),v.get('demo_package'),v.get('existing_tests_with_change_rc'),sid,prop,v.get('check_rc')),
 "detected_by":[det], "demonstration":"demo_test.go.txt (place as a _test.go file in %s, run test %s)"%(v.get('demo_package'),v.get('demo_test'))}, open(d+'/meta.json','w'), indent=1)
print("wrote",d+'/meta.json')
