#!/usr/bin/env python3
"""Generate go.mod / go.sum for the harness modules from /repo's current module list.

Both harness modules `replace` every module of /repo by its directory, so every check compiles the
current working tree of /repo. go.sum is the union of all go.sum files of /repo plus the go.sum lines
of the cached tool modules (rapid, porcupine) that are listed in tools/extra.sum.
"""
import os, re, subprocess, sys

REPO = os.environ.get("VERIF_REPO", "/repo")
VERIF = os.path.dirname(os.path.dirname(os.path.abspath(__file__)))

MODS = {
    "exp": "go.opentelemetry.io/collector/exporter/exporterhelper/verifsim",
    "svc": "go.opentelemetry.io/collector/service/verifsim",
}

PSEUDO = "v0.0.0-00010101000000-000000000000"


def repo_modules():
    out = []
    for root, dirs, files in os.walk(REPO):
        dirs[:] = [d for d in dirs if d not in (".git", "node_modules")]
        if "go.mod" in files:
            p = os.path.join(root, "go.mod")
            with open(p) as f:
                for line in f:
                    m = re.match(r"^module\s+(\S+)", line)
                    if m:
                        out.append((m.group(1), root))
                        break
    out.sort()
    return out


def union_sums(mods):
    lines = set()
    for _, d in mods:
        p = os.path.join(d, "go.sum")
        if os.path.exists(p):
            with open(p) as f:
                for l in f:
                    l = l.strip()
                    if l:
                        lines.add(l)
    extra = os.path.join(VERIF, "tools", "extra.sum")
    if os.path.exists(extra):
        with open(extra) as f:
            for l in f:
                l = l.strip()
                if l:
                    lines.add(l)
    return sorted(lines)


def main():
    mods = repo_modules()
    sums = union_sums(mods)
    for name, modpath in MODS.items():
        d = os.path.join(VERIF, "sim", name)
        os.makedirs(d, exist_ok=True)
        req_path = os.path.join(d, "requires.txt")
        requires = []
        if os.path.exists(req_path):
            with open(req_path) as f:
                requires = [l.strip() for l in f if l.strip() and not l.startswith("#")]
        with open(os.path.join(d, "go.mod"), "w") as f:
            f.write("module %s\n\ngo 1.25\n\n" % modpath)
            f.write("require (\n\tverif.local/simkit %s\n" % PSEUDO)
            for r in requires:
                f.write("\t%s\n" % r)
            f.write(")\n\n")
            f.write("replace verif.local/simkit => %s\n\n" % os.path.join(VERIF, "simkit"))
            f.write("replace (\n")
            for m, dd in mods:
                f.write("\t%s => %s\n" % (m, dd))
            f.write(")\n")
        with open(os.path.join(d, "go.sum"), "w") as f:
            f.write("\n".join(sums) + "\n")
    # simkit: needs the same replaces when built standalone (vet/tests of simkit itself)
    d = os.path.join(VERIF, "simkit")
    with open(os.path.join(d, "go.mod"), "w") as f:
        f.write("module verif.local/simkit\n\ngo 1.25\n\n")
        f.write("replace (\n")
        for m, dd in mods:
            f.write("\t%s => %s\n" % (m, dd))
        f.write(")\n")
    with open(os.path.join(d, "go.sum"), "w") as f:
        f.write("\n".join(sums) + "\n")
    print("genmods: %d repo modules, %d go.sum lines" % (len(mods), len(sums)))


if __name__ == "__main__":
    main()
