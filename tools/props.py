# Per-property registration used by /verif/check: harness module, test function, budgets (seconds per worker).
PROPS = {
    "C01": {
        "mod": "exp", "test": "TestC01", "level": "fault_enumeration", "quick_s": 20, "thorough_s": 480,
        "step_timeout_s": 20,
        "technique": "deterministic crash simulation: every storage-call boundary of seeded scripts as a process death, nested to depth 2-3, on a simulated disk with a crash fence",
        "level_text": "For every seeded script of queue operations the check enumerates every storage-operation boundary (before and after each call) of every incarnation as a process death, and for each of those every death point of the recovery and life that follow (depth 2, depth 3 in the thorough tier for short scripts), plus sampled plans of depth <= 4. Exhaustive over crash points per script; the scripts themselves are sampled.",
        "level_note": "Trusted: the simulated disk applies each storage.Client call atomically (the documented contract; bbolt-backed file storage is transactional) and the crash fence (dying incarnation continues on a private fork, its exports and acknowledgements are discarded). Storage I/O errors are not injected: the property quantifies over deaths.",
        "state_measure": "not state-based: coverage is counted in enumerated lifetimes (script x crash plan)",
        "assumptions": ["storage.Client calls are atomic and durable when they return", "a hand-off counts as completed when the simulated backend returns a final outcome to a live incarnation", "retry is configured without max_elapsed_time so that a transient answer is never final"],
    },
    "C04": {
        "mod": "exp", "test": "TestC04", "level": "exploration", "quick_s": 20, "thorough_s": 420,
        "step_timeout_s": 8,
        "technique": "deterministic simulation: generated payloads with unique item ids through the real batcher under seeded schedules of offers, batch outcomes and virtual-clock advances; conservation-with-identity oracle at the export seam",
        "level_text": "Seeded search over (signal, sizer, min/max/flush_timeout, legacy or queue batcher), generated payloads (arbitrary nesting, empty containers, duplicate resources, oversized single items) and schedules of concurrent offers, batch successes/failures and virtual-clock advances around flush_timeout. Checked after every event: nothing invented or duplicated, every item keeps its full context, size bound, completion exactly after the batches holding the request's items with the right error; at the end: conservation and liveness; non-termination via watchdog.",
        "level_note": "Trusted: the payload generator/fingerprint (simkit/gen), proto size as computed by pdata. Items are attributed to requests by id, so a part of a request that carries no item (empty containers) cannot be attributed; the completion clauses are relaxed exactly there. Profiles (xexporterhelper) are not generated.",
        "state_measure": "<#batches in flight, #producers waiting, #batches emitted (bucketed)>",
        "assumptions": ["retry is disabled so every backend error is a final batch failure", "profiles are not covered by the generator"],
    },
    "C02": {
        "mod": "exp", "test": "TestC02", "level": "exploration", "quick_s": 20, "thorough_s": 420,
        "step_timeout_s": 6,
        "technique": "deterministic simulation: seeded event schedules (offers, backend answers, cancellations, yield releases, shutdown) over the real queue vs. a bounded-FIFO reference model",
        "level_text": "Seeded search over configurations and event schedules of the real in-memory and persistent queues, one externally visible event per quiescence inside a synctest bubble; a reference model (bounded FIFO with sizes) is compared after every step and liveness is checked in a final quiet phase. Sampling, not proof: a clean batch is evidence that no schedule of the explored shape breaks the property.",
        "level_note": "Trusted: Go's testing/synctest quiescence detection, the harness' reference model, the OTel metrics SDK used to read the gauges. Interleavings inside one quiescent step are chosen by the Go runtime, not the tape.",
        "state_measure": "<reported size/capacity, #producers blocked for space, #exports in flight, #queued, #yield-parked waiters, stopped>",
        "assumptions": [
            "scheduling granularity is events at seams plus the two yield points between a cond waiter's wake-up and its re-lock; interleavings inside one quiescent step are left to the Go runtime",
            "hand-off order is asserted only with a single consumer; producers are symmetric so only the lowest free one is offered",
            "cancellation is delivered only to producers sitting in a select (never while parked at a yield), so that at most one select case is ready (replay exactness)",
        ],
    },
}
