#!/usr/bin/env python3
"""Lock-site instrumentation for the queue package (build-time, never written into /repo).

For every statement `<x>.Lock()` in the non-test sources of exporter/exporterhelper/internal/queuebatch (except cond.go,
whose wake-up/re-lock window has its own committed hooks, and the verif_* files) a call

    verifYield(<ctx>, "lock:<Receiver>.<func>")

is inserted on the line before. verifYield is the tag-guarded hook that already exists in that package; the simulation
may park the calling goroutine there (it holds no lock of the package at that point), which turns "who gets the queue
mutex next" into a scheduler decision. The instrumented copies are written to a temporary directory and handed to the
go tool with -overlay, so /repo is not touched and the check still builds /repo's current working tree.

usage: lockinst.py <repo> <outdir>  -> prints the path of overlay.json (or nothing when there is nothing to do)
"""
import json, os, re, sys

PKG = "exporter/exporterhelper/internal/queuebatch"
FUNC = re.compile(r'^func\s+(?:\(\s*\w+\s+\*?(\w+)(?:\[[^\]]*\])?\s*\)\s*)?(\w+)')
LOCK = re.compile(r'^(\s+)[\w.]+\.Lock\(\)\s*$')


def instrument(src):
    lines = src.split("\n")
    has_ctx_import = re.search(r'^\s*"context"\s*$', src, re.M) is not None
    out, n = [], 0
    cur, ctx_ok, sig_open = None, False, False
    sig = ""
    for ln in lines:
        m = FUNC.match(ln)
        if m:
            cur = (m.group(1) + "." if m.group(1) else "") + m.group(2)
            sig, sig_open = ln, "{" not in ln
            ctx_ok = "ctx context.Context" in sig
        elif sig_open:
            sig += ln
            ctx_ok = "ctx context.Context" in sig
            if "{" in ln:
                sig_open = False
        lm = LOCK.match(ln)
        if lm and cur:
            if ctx_ok:
                out.append('%sverifYield(ctx, "lock:%s")' % (lm.group(1), cur))
                n += 1
            elif has_ctx_import:
                out.append('%sverifYield(context.Background(), "lock:%s")' % (lm.group(1), cur))
                n += 1
        out.append(ln)
    return "\n".join(out), n


def main():
    repo, outdir = sys.argv[1], sys.argv[2]
    d = os.path.join(repo, PKG)
    if not os.path.isdir(d) or not os.path.exists(os.path.join(d, "verif_on.go")):
        return
    os.makedirs(outdir, exist_ok=True)
    replace, total = {}, 0
    for f in sorted(os.listdir(d)):
        if not f.endswith(".go") or f.endswith("_test.go") or f.startswith("verif_") or f == "cond.go":
            continue
        p = os.path.join(d, f)
        new, n = instrument(open(p).read())
        if n:
            q = os.path.join(outdir, f)
            open(q, "w").write(new)
            replace[os.path.abspath(p)] = q
            total += n
    if not replace:
        return
    ov = os.path.join(outdir, "overlay.json")
    json.dump({"Replace": replace}, open(ov, "w"), indent=1)
    print(ov)
    sys.stderr.write("lockinst: %d lock sites in %d files\n" % (total, len(replace)))


if __name__ == "__main__":
    main()
