#!/bin/bash
# usage: handmut.sh <name> <PROP> <file-relative-to-repo> <python-replace-old> <new>   (one exact textual replacement)
name=$1; prop=$2; file=$3; old=$4; new=$5; budget=${6:-8}
cd /repo || exit 2
if ! git diff --quiet; then echo "/repo dirty"; exit 2; fi
python3 - "$file" "$old" "$new" <<'PY' || { echo "== $name: pattern not found"; exit 2; }
import sys
f,old,new=sys.argv[1:4]
s=open(f).read()
assert s.count(old)>=1, "pattern not found"
open(f,'w').write(s.replace(old,new,1))
PY
export GOFLAGS=-mod=mod GOPROXY=off GOSUMDB=off GOTOOLCHAIN=local
(cd $(dirname $file) && go build . 2>&1 | head -5)
mkdir -p /verif/.work/hm; git diff > /verif/.work/hm/$name.diff
cd /verif && ./check $prop --budget $budget > /verif/.work/hm/$name.out 2>&1; rc=$?
git -C /repo checkout -- .
echo "== $name vs $prop: rc=$rc $(grep -m1 -A1 '^VIOLATION\|^INFRA' /verif/.work/hm/$name.out | tr '\n' ' ' | cut -c1-230)"
