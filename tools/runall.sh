#!/bin/bash
# run every registered check (quick tier by default) on the current /repo, then validate manifest + evidence
cd /verif
tier=${1:-quick}
fail=0
for id in $(python3 -c "
import sys; sys.path.insert(0,'tools')
from props import PROPS
print(' '.join(k for k in sorted(PROPS) if PROPS[k].get('registered',True)))"); do
  ./check $id --tier $tier > .work/runall-$id.out 2>&1; rc=$?
  echo "$id rc=$rc $(grep -c '^KNOWN-FINDING' .work/runall-$id.out) known; $(grep '^OK\|^VIOLATION\|^INFRA' .work/runall-$id.out | head -2 | tr '\n' ' ')"
  [ $rc -ne 0 ] && fail=1
done
tools/validate.py || fail=1
exit $fail
