HOOK_COMMITS = ["ff50c5273", "6b0293f34"]
FIX_COMMITS = ["307b60a6e", "62d0031d6", "6ce199372", "5fd9938b5", "ad6795210", "c0547804c", "238fc8377", "dacbb5db3", "7596dc66a", "6a30ddb62", "3b9d29682", "e7319ed14", "eedc1e5e3", "7339c48d3", "705404b70", "bcf12043a", "b751d94d2", "4d55ee8fe", "a39809fb4"]

NOTES = ("All checks are deterministic simulations with fault injection (DESIGN.md). Genuine defects found and repaired "
         "are listed in known_findings.json with status 'fixed'; recorded ones with status 'known'.")

PENDING = "claimed in DESIGN.md; harness not finished yet in this commit"

NOT_APPLICABLE = [
    {"property_id": "C07", "reason": "pure sequential value semantics of the data model: no schedule, clock, I/O, fault or interleaving in the statement; deterministic simulation has nothing to decide (DESIGN.md section 6)"},
    {"property_id": "C08", "reason": "codecs are pure functions of a value / byte string; byte flips are input generation, not faults (DESIGN.md section 6)"},
    {"property_id": "C12", "reason": "config merge and ${} expansion are pure functions of source maps and provider return values (DESIGN.md section 6)"},
    {"property_id": "C13", "reason": "strict/faithful config loading is a pure function of the configuration text and struct types (DESIGN.md section 6)"},
    {"property_id": "C14", "reason": "opaque-value redaction is a pure function of the value and the rendering path (DESIGN.md section 6)"},
]
for _p in []:
    NOT_APPLICABLE.append({"property_id": _p, "reason": PENDING})
